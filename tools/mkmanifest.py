#!/usr/bin/env python3
"""Regenerate MANIFEST.json from checks.json (+ na.json for properties not claimed)."""
import json, os
ROOT = os.path.dirname(os.path.dirname(os.path.abspath(__file__)))
checks = json.load(open(os.path.join(ROOT, "checks.json")))
na = json.load(open(os.path.join(ROOT, "na.json")))
props = [json.loads(l)["id"] for l in open(os.path.join(ROOT, "properties.jsonl"))]
hooks = json.load(open(os.path.join(ROOT, "hooks.json")))
out = {
    "version": 1,
    "setup_cmd": "cd /verif/engine && GOFLAGS=-mod=mod GOPROXY=off GOSUMDB=off GOTOOLCHAIN=local go build -o /verif/bin/gosym .",
    "hooks": hooks,
    "engines": [{"name": "gosym", "path": "/verif/engine", "serves_properties": sorted(checks.keys()),
                 "kind_free_text": "symbolic executor for Go SSA (golang.org/x/tools/go/ssa) written for this task: real functions of /repo are executed over SMT terms (bit-vectors, IEEE floats, byte arrays), every fork and every assertion is decided by z3/cvc5, counterexamples are replayed natively against the compiled code"}],
    "checks": [],
    "not_applicable": [],
    "notes": "All checks rebuild the encoding from /repo's working tree on every run (go/packages + go/ssa with harness files injected by overlay). See DESIGN.md.",
}
for pid in props:
    if pid in checks:
        c = checks[pid]
        out["checks"].append({
            "property_id": pid,
            "quick_cmd": "./check %s --tier quick" % pid,
            "thorough_cmd": "./check %s --tier thorough" % pid,
            "evidence_file": "/verif/evidence/%s.json" % pid,
            "replay_cmd_template": "./check %s --replay {path}" % pid,
            "engine": "gosym",
            "level_claimed": {"category": c["level"], "text": c.get("level_text", c.get("explanation", "")) + " Bounds (quick): " + c["quick"].get("bounds", ""), "design_ref": "DESIGN.md section 5, " + pid},
            "level_note": "trusted: go/ssa, gosym instruction semantics and std-library models (engine/*.go), the SMT solver; outside the claim: " + c.get("outside", ""),
            "technique": c.get("technique", "symbolic execution of the real Go SSA + SMT (z3/cvc5) per path; bounded; native replay of counterexamples"),
        })
    else:
        out["not_applicable"].append({"property_id": pid, "reason": na.get(pid, "check not built yet in this session (see DESIGN.md section 5 for the plan)")})
json.dump(out, open(os.path.join(ROOT, "MANIFEST.json"), "w"), indent=1)
print("checks:", [c["property_id"] for c in out["checks"]], "na:", [n["property_id"] for n in out["not_applicable"]])
