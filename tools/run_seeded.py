#!/usr/bin/env python3
"""Apply each seeded change to /repo, run the registered quick (or given tier) check(s), undo the change.
Usage: tools/run_seeded.py [name-substring] [--tier quick|thorough]"""
import json, os, subprocess, sys, time
ROOT = os.path.dirname(os.path.dirname(os.path.abspath(__file__)))
tier = "quick"
args = [a for a in sys.argv[1:]]
if "--tier" in args:
    tier = args[args.index("--tier") + 1]
    del args[args.index("--tier"):args.index("--tier") + 2]
flt = args[0] if args else ""
resf = os.path.join(ROOT, "seeded", "results_%s.json" % tier)
res = json.load(open(resf)) if os.path.exists(resf) else {}
env = dict(os.environ, VERIF_EVIDENCE_DIR=os.path.join(ROOT, "work", "seeded-evidence"))
for name in sorted(os.listdir(os.path.join(ROOT, "seeded"))):
    d = os.path.join(ROOT, "seeded", name)
    if not os.path.isdir(d) or flt not in name:
        continue
    meta = json.load(open(os.path.join(d, "meta.json")))
    assert subprocess.run(["git", "-C", "/repo", "status", "--porcelain"], capture_output=True, text=True).stdout.strip() == "", "/repo not clean"
    ap = subprocess.run(["git", "-C", "/repo", "apply", os.path.join(d, "patch.diff")], capture_output=True, text=True)
    if ap.returncode != 0:
        res[name] = {"error": "patch does not apply: " + ap.stderr[:200]}
        continue
    res[name] = {}
    try:
        for pid in meta["checks_to_run"]:
            t0 = time.time()
            r = subprocess.run([os.path.join(ROOT, "check"), pid, "--tier", tier], cwd=ROOT, capture_output=True, text=True, env=env)
            lines = [l for l in r.stdout.split("\n") if l.startswith(("VIOLATION", "KNOWN", "UNCONFIRMED", "REDUCED", "CHECK-BROKEN", "property="))]
            res.setdefault(name, {})[pid] = {"exit": r.returncode, "caught": r.returncode == 1 and any(l.startswith("VIOLATION") for l in lines), "wall_s": round(time.time() - t0), "lines": lines[:8]}
            print(name, pid, "exit", r.returncode, "CAUGHT" if res[name][pid]["caught"] else "missed", flush=True)
    finally:
        subprocess.run(["git", "-C", "/repo", "checkout", "--", "."], check=True)
json.dump(res, open(resf, "w"), indent=1, sort_keys=True)
