#!/usr/bin/env python3
"""Cross-check of the encoding against several SMT solvers: runs the quick tier of the given checks once per
solver (z3 4.8.12, z3-new 5.1.0, cvc5 1.0) and compares verdicts, path counts and obligation counts.
Usage: tools/solver_diff.py [ids...]   (default: C18 C16 C03)   -> work/solver_diff.json; exit 1 on a difference"""
import json, os, subprocess, sys
ROOT = os.path.dirname(os.path.dirname(os.path.abspath(__file__)))
ids = sys.argv[1:] or ["C18", "C16", "C03"]
solvers = ["z3", "z3-new", "cvc5"]
out, diff = {}, 0
for pid in ids:
    rows = {}
    for s in solvers:
        evd = os.path.join(ROOT, "work", "solverdiff", s)
        env = dict(os.environ, VERIF_SOLVER=s, VERIF_EVIDENCE_DIR=evd)
        r = subprocess.run([os.path.join(ROOT, "check"), pid, "--tier", "quick"], cwd=ROOT, capture_output=True, text=True, env=env)
        ev = json.load(open(os.path.join(evd, pid + ".json")))["coverage"]
        rows[s] = {"exit": r.returncode, "paths": ev["evaluations"], "by_outcome": ev.get("paths_by_outcome"), "obligations": ev.get("obligations"), "discharged": ev.get("discharged"),
                   "solver_time_s": ev.get("solver_time_s"), "problems": ev.get("reduced_bounds_or_problems")}
        print(pid, s, rows[s], flush=True)
    key = lambda x: (x["exit"], x["paths"], json.dumps(x["by_outcome"], sort_keys=True), x["obligations"], x["discharged"])
    same = len({key(v) for v in rows.values()}) == 1
    out[pid] = {"same": same, "runs": rows}
    diff += not same
os.makedirs(os.path.join(ROOT, "work"), exist_ok=True)
json.dump(out, open(os.path.join(ROOT, "work", "solver_diff.json"), "w"), indent=1)
print("DIFFERENCE" if diff else "all solvers agree")
sys.exit(1 if diff else 0)
