#!/usr/bin/env python3
"""Run every claimed check of a tier on /repo's current tree, one after the other (each uses all cores).
Usage: tools/run_all.py [--tier quick|thorough] [ids...]   -> summary on stdout, work/run_all_<tier>.json"""
import json, os, subprocess, sys, time
ROOT = os.path.dirname(os.path.dirname(os.path.abspath(__file__)))
args = sys.argv[1:]
tier = "quick"
if "--tier" in args:
    tier = args[args.index("--tier") + 1]
    del args[args.index("--tier"):args.index("--tier") + 2]
ids = args or sorted(json.load(open(os.path.join(ROOT, "checks.json"))).keys())
res = {}
bad = 0
for pid in ids:
    t0 = time.time()
    r = subprocess.run([os.path.join(ROOT, "check"), pid, "--tier", tier], cwd=ROOT, capture_output=True, text=True)
    lines = [l for l in r.stdout.split("\n") if l.startswith(("VIOLATION", "KNOWN", "UNCONFIRMED", "REDUCED", "CHECK-BROKEN", "property="))]
    res[pid] = {"exit": r.returncode, "wall_s": round(time.time() - t0), "lines": lines[:12]}
    print(pid, "exit", r.returncode, "%ds" % res[pid]["wall_s"], "|", lines[-1] if lines else r.stdout[-300:], flush=True)
    for l in lines[:-1]:
        print("   ", l[:300], flush=True)
    bad += r.returncode != 0
os.makedirs(os.path.join(ROOT, "work"), exist_ok=True)
json.dump(res, open(os.path.join(ROOT, "work", "run_all_%s.json" % tier), "w"), indent=1)
sys.exit(1 if bad else 0)
