package main

// One long-lived solver process per worker.  Everything is defined at base level with
// (define-fun tN ...) and queries use (check-sat-assuming ...), so that definitions are shared
// by all paths a worker explores.

import (
	"bufio"
	"fmt"
	"io"
	"os"
	"os/exec"
	"strconv"
	"strings"
	"time"
)

type Solver struct {
	cmd     *exec.Cmd
	in      io.WriteCloser
	out     *bufio.Reader
	defined map[int]bool
	declUF  map[string]bool
	tc      *TermCtx
	// statistics
	Queries   int
	SolveTime time.Duration
	Unknowns  int
	Errors    int
	log       io.Writer
	timeoutMs int
	bin       string
	MaxQuery  time.Duration
}

func NewSolver(tc *TermCtx, bin string, timeoutMs int, logPath string) (*Solver, error) {
	s := &Solver{tc: tc, bin: bin, timeoutMs: timeoutMs}
	if logPath != "" {
		f, err := os.Create(logPath)
		if err == nil {
			s.log = f
		}
	}
	if err := s.start(); err != nil {
		return nil, err
	}
	return s, nil
}

func (s *Solver) start() error {
	var args []string
	switch {
	case strings.Contains(s.bin, "cvc5"):
		args = []string{"--incremental", "--lang=smt2", "--produce-models", fmt.Sprintf("--tlimit-per=%d", s.timeoutMs)}
	default:
		args = []string{"-in", "-smt2"}
	}
	s.cmd = exec.Command(s.bin, args...)
	in, err := s.cmd.StdinPipe()
	if err != nil {
		return err
	}
	out, err := s.cmd.StdoutPipe()
	if err != nil {
		return err
	}
	s.cmd.Stderr = nil
	if err := s.cmd.Start(); err != nil {
		return err
	}
	s.in = in
	s.out = bufio.NewReaderSize(out, 1<<20)
	s.defined = map[int]bool{}
	s.declUF = map[string]bool{}
	if !strings.Contains(s.bin, "cvc5") {
		s.send(fmt.Sprintf("(set-option :timeout %d)", s.timeoutMs))
		s.send("(set-option :produce-models true)")
	} else {
		s.send("(set-logic ALL)")
	}
	return nil
}

func (s *Solver) Close() {
	if s.cmd != nil {
		s.in.Close()
		s.cmd.Process.Kill()
		s.cmd.Wait()
		s.cmd = nil
	}
}

// Restart drops all solver state (used when the term table is reset).
func (s *Solver) Restart(tc *TermCtx) error {
	s.Close()
	s.tc = tc
	return s.start()
}

func (s *Solver) send(line string) {
	if s.log != nil {
		fmt.Fprintln(s.log, line)
	}
	io.WriteString(s.in, line)
	io.WriteString(s.in, "\n")
}

// define makes sure t (and its sub-terms) are known to the solver.
func (s *Solver) define(t *Term) {
	if isLeaf(t) {
		if t.op == OVar && !s.defined[t.id] {
			s.defined[t.id] = true
			s.send(fmt.Sprintf("(declare-const %s %s)", t.name, t.sort))
		}
		return
	}
	if s.defined[t.id] {
		return
	}
	// iterative post-order to avoid deep recursion on long chains
	type fr struct {
		t *Term
		i int
	}
	st := []fr{{t, 0}}
	for len(st) > 0 {
		f := &st[len(st)-1]
		if f.i < len(f.t.args) {
			a := f.t.args[f.i]
			f.i++
			if isLeaf(a) {
				if a.op == OVar && !s.defined[a.id] {
					s.defined[a.id] = true
					s.send(fmt.Sprintf("(declare-const %s %s)", a.name, a.sort))
				}
			} else if !s.defined[a.id] {
				st = append(st, fr{a, 0})
			}
			continue
		}
		tt := f.t
		st = st[:len(st)-1]
		if s.defined[tt.id] {
			continue
		}
		s.defined[tt.id] = true
		if tt.op == OUF && !s.declUF[tt.name] {
			s.declUF[tt.name] = true
			s.send(s.tc.ufs[tt.name])
		}
		s.send(fmt.Sprintf("(define-fun t%d () %s %s)", tt.id, tt.sort, body(tt)))
	}
}

type Result int

const (
	Sat Result = iota
	Unsat
	Unknown
)

func (r Result) String() string { return [...]string{"sat", "unsat", "unknown"}[r] }

func (s *Solver) readLine() (string, error) {
	l, err := s.out.ReadString('\n')
	return strings.TrimSpace(l), err
}

// Check decides satisfiability of the conjunction of assumptions.
func (s *Solver) Check(assumps []*Term) Result {
	lits := make([]string, 0, len(assumps))
	for _, a := range assumps {
		if a.IsConst() {
			if a.val == 0 {
				return Unsat
			}
			continue
		}
		s.define(a)
		if a.op == ONot && !isLeaf(a.args[0]) {
			lits = append(lits, fmt.Sprintf("(not t%d)", a.args[0].id))
		} else {
			lits = append(lits, ref(a))
		}
	}
	t0 := time.Now()
	s.Queries++
	s.send("(check-sat-assuming (" + strings.Join(lits, " ") + "))")
	res := Unknown
	for {
		l, err := s.readLine()
		if err != nil {
			s.Errors++
			// solver died: restart and report unknown
			s.Restart(s.tc)
			break
		}
		if l == "" {
			continue
		}
		if strings.HasPrefix(l, "(error") {
			s.Errors++
			if s.log != nil {
				fmt.Fprintln(s.log, "; ERR "+l)
			}
			fmt.Fprintln(os.Stderr, "solver error:", l)
			// an error may precede the verdict or replace it; make it inconclusive but resync
			res = Unknown
			// try to resync by echo
			s.send("(echo \"sync\")")
			for {
				l2, err := s.readLine()
				if err != nil || l2 == "sync" || l2 == "\"sync\"" {
					break
				}
			}
			break
		}
		if l == "sat" {
			res = Sat
			break
		}
		if l == "unsat" {
			res = Unsat
			break
		}
		if l == "unknown" || l == "timeout" {
			res = Unknown
			break
		}
	}
	d := time.Since(t0)
	s.SolveTime += d
	if d > s.MaxQuery {
		s.MaxQuery = d
	}
	if res == Unknown {
		s.Unknowns++
	}
	return res
}

// Values returns model values (after a Sat verdict) for the given variables.
func (s *Solver) Values(vars []*Term) map[string]uint64 {
	out := map[string]uint64{}
	if len(vars) == 0 {
		return out
	}
	var names []string
	for _, v := range vars {
		if v.sort == SArr {
			continue
		}
		s.define(v)
		names = append(names, ref(v))
	}
	if len(names) == 0 {
		return out
	}
	s.send("(get-value (" + strings.Join(names, " ") + "))")
	// read balanced s-expression
	var sb strings.Builder
	depth := 0
	started := false
	for {
		l, err := s.readLine()
		if err != nil {
			return out
		}
		sb.WriteString(l)
		sb.WriteString(" ")
		for _, ch := range l {
			if ch == '(' {
				depth++
				started = true
			} else if ch == ')' {
				depth--
			}
		}
		if started && depth <= 0 {
			break
		}
	}
	txt := sb.String()
	if strings.HasPrefix(strings.TrimSpace(txt), "(error") {
		s.Errors++
		return out
	}
	// parse pairs "(name value)"
	toks := strings.Fields(strings.NewReplacer("(", " ( ", ")", " ) ").Replace(txt))
	for i := 0; i+2 < len(toks); i++ {
		if toks[i] == "(" && toks[i+1] != "(" && toks[i+2] != "(" {
			name, val := toks[i+1], toks[i+2]
			var v uint64
			switch {
			case strings.HasPrefix(val, "#x"):
				v, _ = strconv.ParseUint(val[2:], 16, 64)
			case strings.HasPrefix(val, "#b"):
				v, _ = strconv.ParseUint(val[2:], 2, 64)
			case val == "true":
				v = 1
			case val == "false":
				v = 0
			default:
				continue
			}
			out[name] = v
		}
	}
	return out
}

// EvalTerm asks the solver for the model value of an arbitrary (non-array) term.
func (s *Solver) EvalTerm(t *Term) (uint64, bool) {
	if t.IsConst() {
		return t.val, true
	}
	m := s.Values([]*Term{t})
	v, ok := m[ref(t)]
	return v, ok
}
