package main

import (
	"os"
	"fmt"
	"go/types"
	"math"
	"strconv"
	"strings"
	"time"

	"golang.org/x/tools/go/ssa"
)

const vfPkg = "github.com/ryogrid/SamehadaDB/lib/zzvf/vf"

func isStdPath(p string) bool {
	first := p
	if i := strings.Index(p, "/"); i >= 0 {
		first = p[:i]
	}
	return !strings.Contains(first, ".")
}

var stdInitAllow = map[string]bool{
	"io": true, "bytes": true, "strings": true, "sort": true, "math": true, "strconv": true,
	"container/list": true, "container/heap": true, "unicode/utf8": true, "math/bits": true,
	"slices": true, "maps": true, "cmp": true,
}

func skipInitPkg(path string) bool {
	if path == vfPkg {
		return true
	}
	if isStdPath(path) {
		return !stdInitAllow[path]
	}
	if strings.Contains(path, "pingcap") {
		return os.Getenv("GOSYM_PINGCAP_INIT") == ""
	}
	return false
}

func (ex *Exec) initStdGlobals(pkg *ssa.Package) {
	// only zero values; specific globals may be special-cased here
}

// ---------- helpers ----------

func (ex *Exec) errorValue(msg string) Value {
	pkg := ex.prog.ImportedPackage("errors")
	if pkg == nil {
		ex.unsupported("package errors not loaded")
	}
	t := pkg.Type("errorString").Type()
	cell := new(Value)
	*cell = Struct{Str{s: msg}}
	return Iface{t: types.NewPointer(t), v: cell}
}

func (ex *Exec) stdGlobal(pkgPath, name string) Value {
	pkg := ex.prog.ImportedPackage(pkgPath)
	if pkg == nil {
		ex.unsupported("package " + pkgPath + " not loaded")
	}
	g, ok := pkg.Members[name].(*ssa.Global)
	if !ok {
		ex.unsupported("no global " + pkgPath + "." + name)
	}
	return *ex.global(g)
}

func (ex *Exec) i64(v uint64) *Term { return ex.tc.BV(64, v) }

func nilErr() Value { return Iface{} }

func (ex *Exec) recordInput(name, kind string, n int, t *Term) {
	ex.inputs = append(ex.inputs, InputRec{Name: name, Kind: kind, N: n})
	ex.inputTerms = append(ex.inputTerms, t)
}

func (ex *Exec) newBytesConc(bs []*Term) ByteSlice {
	arr := ex.newByteArrZero(ex.i64(uint64(len(bs))))
	for i, b := range bs {
		arr.Write(ex.i64(uint64(i)), b)
	}
	n := ex.i64(uint64(len(bs)))
	return ByteSlice{arr, ex.i64(0), n, n}
}

func (ex *Exec) sliceByteTerms(s ByteSlice, what string) []*Term {
	n := int(ex.concretize(s.len, what))
	out := make([]*Term, n)
	for i := 0; i < n; i++ {
		out[i] = s.arr.Read(ex.tc.Bin(OAdd, s.off, ex.i64(uint64(i))))
	}
	return out
}

func (ex *Exec) mutexOf(p Value) *mstate {
	var key interface{}
	switch x := p.(type) {
	case *Value:
		if x == nil {
			ex.goPanic("nil mutex")
		}
		key = x
	default:
		ex.unsupported(fmt.Sprintf("mutex pointer %T", p))
	}
	m := ex.mutexes[key]
	if m == nil {
		m = &mstate{}
		ex.mutexes[key] = m
	}
	return m
}

// goNative converts a concrete engine value into a native Go value for fmt.
func (ex *Exec) goNative(v Value, t types.Type) (interface{}, bool) {
	switch x := v.(type) {
	case Iface:
		if x.t == nil {
			return nil, true
		}
		return ex.goNative(x.v, x.t)
	case *Term:
		if !x.IsConst() {
			return nil, false
		}
		if t != nil {
			if isBool(t) {
				return x.val == 1, true
			}
			if isFloat(t) {
				return fbits2f(x.sort, x.val), true
			}
			if isSigned(t) {
				return x.Int(), true
			}
		}
		if x.sort == SBool {
			return x.val == 1, true
		}
		return x.val, true
	case Str:
		if x.IsConc() {
			return x.s, true
		}
		return nil, false
	case Struct:
		parts := []string{}
		var st *types.Struct
		if t != nil {
			st, _ = t.Underlying().(*types.Struct)
		}
		for i, f := range x {
			var ft types.Type
			if st != nil {
				ft = st.Field(i).Type()
			}
			n, ok := ex.goNative(f, ft)
			if !ok {
				return nil, false
			}
			parts = append(parts, fmt.Sprint(n))
		}
		return "{" + strings.Join(parts, " ") + "}", true
	case *Value:
		return fmt.Sprintf("%p", x), true
	case nil:
		return nil, true
	}
	return fmt.Sprintf("<%T>", v), true
}

func (ex *Exec) sprintf(format Str, args Slice) Str {
	if !format.IsConc() {
		return Str{s: "<symbolic format>"}
	}
	var nat []interface{}
	for i := 0; i < args.len; i++ {
		n, ok := ex.goNative(args.arr.elems[args.off+i], nil)
		if !ok {
			n = "<sym>"
		}
		nat = append(nat, n)
	}
	return Str{s: fmt.Sprintf(format.s, nat...)}
}

func (ex *Exec) sprint(args Slice, ln bool) Str {
	var nat []interface{}
	for i := 0; i < args.len; i++ {
		n, ok := ex.goNative(args.arr.elems[args.off+i], nil)
		if !ok {
			n = "<sym>"
		}
		nat = append(nat, n)
	}
	if ln {
		return Str{s: fmt.Sprintln(nat...)}
	}
	return Str{s: fmt.Sprint(nat...)}
}

func (ex *Exec) concStrArg(v Value, what string) string {
	s := v.(Str)
	if !s.IsConc() {
		ex.unsupported("symbolic string passed to " + what)
	}
	return s.s
}

func (ex *Exec) strSlice(ss []string) Value {
	arr := &ArrObj{elems: make([]Value, len(ss))}
	for i, s := range ss {
		arr.elems[i] = Str{s: s}
	}
	return Slice{arr, 0, len(ss), len(ss)}
}

// ---------- binary encoding ----------

func (ex *Exec) isBigEndian(order Value) bool {
	it := order.(Iface)
	return strings.Contains(it.t.String(), "bigEndian")
}

func (ex *Exec) binSize(t types.Type) int {
	switch u := t.Underlying().(type) {
	case *types.Basic:
		w := basicWidth(u)
		if w == 0 {
			return 1
		}
		if w > 0 && u.Kind() != types.Int && u.Kind() != types.Uint && u.Kind() != types.Uintptr {
			return w / 8
		}
	case *types.Array:
		s := ex.binSize(u.Elem())
		if s < 0 {
			return -1
		}
		return s * int(u.Len())
	case *types.Struct:
		tot := 0
		for i := 0; i < u.NumFields(); i++ {
			s := ex.binSize(u.Field(i).Type())
			if s < 0 {
				return -1
			}
			tot += s
		}
		return tot
	}
	return -1
}

func (ex *Exec) binEncode(big bool, t types.Type, v Value, out *[]*Term) bool {
	tc := ex.tc
	switch u := t.Underlying().(type) {
	case *types.Basic:
		x, ok := v.(*Term)
		if !ok {
			return false
		}
		if x.sort == SBool {
			*out = append(*out, tc.Ite(x, tc.BV(8, 1), tc.BV(8, 0)))
			return true
		}
		if u.Kind() == types.Int || u.Kind() == types.Uint || u.Kind() == types.Uintptr {
			return false
		}
		n := int(x.sort) / 8
		for i := 0; i < n; i++ {
			k := i
			if big {
				k = n - 1 - i
			}
			*out = append(*out, tc.Extract(8*k+7, 8*k, x))
		}
		return true
	case *types.Array:
		switch a := v.(type) {
		case *ByteArr:
			for i := 0; i < int(u.Len()); i++ {
				*out = append(*out, a.Read(ex.i64(uint64(i))))
			}
			return true
		case *ArrObj:
			for _, e := range a.elems {
				if !ex.binEncode(big, u.Elem(), e, out) {
					return false
				}
			}
			return true
		}
	case *types.Struct:
		s := v.(Struct)
		for i := 0; i < u.NumFields(); i++ {
			if !ex.binEncode(big, u.Field(i).Type(), s[i], out) {
				return false
			}
		}
		return true
	case *types.Slice:
		switch a := v.(type) {
		case ByteSlice:
			*out = append(*out, ex.sliceByteTerms(a, "binary.Write []byte")...)
			return true
		case Slice:
			for i := 0; i < a.len; i++ {
				if !ex.binEncode(big, u.Elem(), a.arr.elems[a.off+i], out) {
					return false
				}
			}
			return true
		}
	case *types.Pointer:
		return ex.binEncode(big, u.Elem(), ex.load(v, u.Elem()), out)
	}
	return false
}

func (ex *Exec) binDecode(big bool, t types.Type, bs []*Term, pos *int) (Value, bool) {
	tc := ex.tc
	switch u := t.Underlying().(type) {
	case *types.Basic:
		w := basicWidth(u)
		if w == 0 {
			b := bs[*pos]
			*pos++
			return tc.Not(tc.Eq(b, tc.BV(8, 0))), true
		}
		if w < 0 || u.Kind() == types.Int || u.Kind() == types.Uint || u.Kind() == types.Uintptr {
			return nil, false
		}
		n := w / 8
		var r *Term
		for i := 0; i < n; i++ {
			k := i
			if !big {
				k = n - 1 - i
			}
			b := bs[*pos+k]
			if r == nil {
				r = b
			} else {
				r = tc.Concat(r, b)
			}
		}
		*pos += n
		return r, true
	case *types.Array:
		if isByteType(u.Elem()) {
			arr := ex.newByteArrZero(ex.i64(uint64(u.Len())))
			for i := 0; i < int(u.Len()); i++ {
				arr.Write(ex.i64(uint64(i)), bs[*pos+i])
			}
			*pos += int(u.Len())
			return arr, true
		}
		a := &ArrObj{elems: make([]Value, u.Len())}
		for i := range a.elems {
			v, ok := ex.binDecode(big, u.Elem(), bs, pos)
			if !ok {
				return nil, false
			}
			a.elems[i] = v
		}
		return a, true
	case *types.Struct:
		s := make(Struct, u.NumFields())
		for i := range s {
			v, ok := ex.binDecode(big, u.Field(i).Type(), bs, pos)
			if !ok {
				return nil, false
			}
			s[i] = v
		}
		return s, true
	}
	return nil, false
}

// call a method on an interface value through the interpreter
func (ex *Exec) invoke(fr *frame, recv Iface, name string, args ...Value) Value {
	if recv.t == nil {
		ex.goPanic("nil interface method call: " + name)
	}
	ms := ex.prog.MethodSets.MethodSet(recv.t)
	for i := 0; i < ms.Len(); i++ {
		sel := ms.At(i)
		if sel.Obj().Name() == name {
			fn := ex.prog.MethodValue(sel)
			return ex.callFn(fr, fn, append([]Value{recv.v}, args...), nil)
		}
	}
	ex.unsupported("invoke: no method " + name + " on " + recv.t.String())
	return nil
}

// ---------- bytes.Buffer on its real layout {buf []byte; off int; lastRead int8} ----------

func (ex *Exec) bufFields(p Value) Struct {
	c, ok := p.(*Value)
	if !ok || c == nil {
		ex.goPanic("nil *bytes.Buffer")
	}
	return (*c).(Struct)
}

func (ex *Exec) bufWrite(p Value, data ByteSlice) {
	s := ex.bufFields(p)
	s[0] = ex.appendOp(s[0], data)
}

func (ex *Exec) bufRead(p Value, dst ByteSlice) (n *Term, eof bool) {
	tc := ex.tc
	s := ex.bufFields(p)
	buf := s[0].(ByteSlice)
	off := s[1].(*Term)
	if ex.branch(tc.Cmp(OSLE, buf.len, off)) {
		// empty
		z := ex.i64(0)
		s[0] = ByteSlice{buf.arr, buf.off, z, buf.cap}
		s[1] = z
		if ex.branch(tc.Eq(dst.len, z)) {
			return z, false
		}
		return z, true
	}
	avail := tc.Bin(OSub, buf.len, off)
	n = tc.Ite(tc.Cmp(OULT, dst.len, avail), dst.len, avail)
	if dst.arr != nil && buf.arr != nil {
		dst.arr.Move(dst.off, buf.arr, tc.Bin(OAdd, buf.off, off), n)
	}
	s[1] = tc.Bin(OAdd, off, n)
	return n, false
}

// ---------- intrinsic table ----------

func buildIntrinsics() map[string]intrinsic {
	m := map[string]intrinsic{}
	reg := func(name string, f intrinsic) { m[name] = f }
	nop := func(ex *Exec, fr *frame, fn *ssa.Function, args []Value) Value {
		res := fn.Signature.Results()
		switch res.Len() {
		case 0:
			return nil
		case 1:
			return ex.zero(res.At(0).Type())
		}
		return ex.zero(res)
	}

	// ---- vf ----
	vfn := func(n string) string { return vfPkg + "." + n }
	mkInt := func(kind string, w int) intrinsic {
		return func(ex *Exec, fr *frame, fn *ssa.Function, args []Value) Value {
			v := ex.fresh(kind, Sort(w))
			ex.recordInput(v.name, kind, 0, v)
			return v
		}
	}
	reg(vfn("U8"), mkInt("u8", 8))
	reg(vfn("U16"), mkInt("u16", 16))
	reg(vfn("U32"), mkInt("u32", 32))
	reg(vfn("U64"), mkInt("u64", 64))
	reg(vfn("I32"), mkInt("i32", 32))
	reg(vfn("I64"), mkInt("i64", 64))
	reg(vfn("Int"), mkInt("i64", 64))
	reg(vfn("F32"), mkInt("f32", 32))
	reg(vfn("Bool"), func(ex *Exec, fr *frame, fn *ssa.Function, args []Value) Value {
		v := ex.fresh("bool", SBool)
		ex.recordInput(v.name, "bool", 0, v)
		return v
	})
	reg(vfn("Bytes"), func(ex *Exec, fr *frame, fn *ssa.Function, args []Value) Value {
		n := int(ex.concretize(args[0].(*Term), "vf.Bytes length"))
		bs := make([]*Term, n)
		for i := range bs {
			bs[i] = ex.fresh("byte", 8)
			ex.recordInput(bs[i].name, "u8", 0, bs[i])
		}
		return ex.newBytesConc(bs)
	})
	// BytesN(max): []byte of symbolic length <= max with arbitrary content (SMT-array backed)
	reg(vfn("BytesN"), func(ex *Exec, fr *frame, fn *ssa.Function, args []Value) Value {
		max := args[0].(*Term)
		ex.varSeq++
		name := fmt.Sprintf("arr_%d", ex.varSeq)
		mx := int(ex.concretize(max, "vf.BytesN max"))
		arr := ex.newByteArrSym(name, mx)
		ln := ex.fresh("len", 64)
		ex.addPC(ex.tc.Cmp(OULE, ln, ex.i64(uint64(mx))))
		ex.recordInput(ln.name, "len", 0, ln)
		ex.recordInput(name, "array", mx, arr.top.arr)
		return ByteSlice{arr, ex.i64(0), ln, ln}
	})
	reg(vfn("Page"), func(ex *Exec, fr *frame, fn *ssa.Function, args []Value) Value {
		ex.varSeq++
		name := fmt.Sprintf("arr_%d", ex.varSeq)
		arr := ex.newByteArrSym(name, 4096)
		ex.recordInput(name, "array", 4096, arr.top.arr)
		c := new(Value)
		*c = arr
		return c
	})
	reg(vfn("Choose"), func(ex *Exec, fr *frame, fn *ssa.Function, args []Value) Value {
		n := int(ex.concretize(args[0].(*Term), "vf.Choose n"))
		k := ex.choose(n)
		kt := ex.i64(uint64(k))
		ex.recordInput(fmt.Sprintf("choose_%d", len(ex.inputs)), "choose", k, kt)
		return kt
	})
	reg(vfn("Assume"), func(ex *Exec, fr *frame, fn *ssa.Function, args []Value) Value {
		c := args[0].(*Term)
		if c.IsConst() {
			if c.val == 0 {
				ex.end(OutInfeasible, "assume(false)")
			}
			return nil
		}
		// feasibility
		pos := len(ex.decisions)
		if pos < len(ex.prefix) {
			ex.decisions = append(ex.decisions, ex.prefix[pos])
			ex.addPC(c)
			return nil
		}
		r := ex.checkPC(c)
		if r == Unsat {
			ex.end(OutInfeasible, "assumption unsatisfiable")
		}
		if r == Unknown {
			ex.inconcl++
		}
		ex.decisions = append(ex.decisions, 1)
		ex.addPC(c)
		return nil
	})
	reg(vfn("Assert"), func(ex *Exec, fr *frame, fn *ssa.Function, args []Value) Value {
		c := args[0].(*Term)
		label := ex.describe(args[1])
		ex.doAssert(c, label, fr)
		return nil
	})
	reg(vfn("Cover"), func(ex *Exec, fr *frame, fn *ssa.Function, args []Value) Value {
		ex.covers[ex.describe(args[0])] = true
		return nil
	})
	reg(vfn("Note"), func(ex *Exec, fr *frame, fn *ssa.Function, args []Value) Value {
		ex.notes = append(ex.notes, ex.describe(args[0])+"="+ex.noteVal(args[1]))
		return nil
	})
	reg(vfn("ExpectPanic"), func(ex *Exec, fr *frame, fn *ssa.Function, args []Value) (ret Value) {
		ret = ex.tc.Bool(false)
		func() {
			defer func() {
				if r := recover(); r != nil {
					if _, ok := r.(*goPanicT); ok {
						ret = ex.tc.Bool(true)
						ex.curFrame = fr
						return
					}
					panic(r)
				}
			}()
			ex.callValue(fr, args[0], nil, nil)
		}()
		return ret
	})
	reg(vfn("Symbolic"), func(ex *Exec, fr *frame, fn *ssa.Function, args []Value) Value {
		return ex.tc.Bool(true)
	})
	reg(vfn("IsConcrete"), func(ex *Exec, fr *frame, fn *ssa.Function, args []Value) Value {
		t, ok := args[0].(*Term)
		return ex.tc.Bool(ok && t.IsConst())
	})
	// Ite32(c, a, b): branch-free selection (keeps a formula instead of forking)
	reg(vfn("Ite32"), func(ex *Exec, fr *frame, fn *ssa.Function, args []Value) Value {
		return ex.tc.Ite(args[0].(*Term), args[1].(*Term), args[2].(*Term))
	})
	reg(vfn("And"), func(ex *Exec, fr *frame, fn *ssa.Function, args []Value) Value {
		return ex.tc.And(args[0].(*Term), args[1].(*Term))
	})
	reg(vfn("Or"), func(ex *Exec, fr *frame, fn *ssa.Function, args []Value) Value {
		return ex.tc.Or(args[0].(*Term), args[1].(*Term))
	})
	reg(vfn("Implies"), func(ex *Exec, fr *frame, fn *ssa.Function, args []Value) Value {
		return ex.tc.Or(ex.tc.Not(args[0].(*Term)), args[1].(*Term))
	})
	// BytesLess(a,b): lexicographic comparison as one formula (concrete lengths)
	reg(vfn("BytesLess"), func(ex *Exec, fr *frame, fn *ssa.Function, args []Value) Value {
		a := ex.sliceByteTerms(args[0].(ByteSlice), "BytesLess a")
		b := ex.sliceByteTerms(args[1].(ByteSlice), "BytesLess b")
		return ex.bytesLess(a, b, false)
	})
	reg(vfn("BytesEq"), func(ex *Exec, fr *frame, fn *ssa.Function, args []Value) Value {
		a := ex.sliceByteTerms(args[0].(ByteSlice), "BytesEq a")
		b := ex.sliceByteTerms(args[1].(ByteSlice), "BytesEq b")
		if len(a) != len(b) {
			return ex.tc.Bool(false)
		}
		r := ex.tc.Bool(true)
		for i := range a {
			r = ex.tc.And(r, ex.tc.Eq(a[i], b[i]))
		}
		return r
	})
	reg(vfn("StrLess"), func(ex *Exec, fr *frame, fn *ssa.Function, args []Value) Value {
		return ex.bytesLess(ex.strBytes(args[0].(Str)), ex.strBytes(args[1].(Str)), false)
	})
	reg(vfn("F32IsNaN"), func(ex *Exec, fr *frame, fn *ssa.Function, args []Value) Value {
		return ex.tc.FPIsNaN(args[0].(*Term))
	})
	reg(vfn("F32Less"), func(ex *Exec, fr *frame, fn *ssa.Function, args []Value) Value {
		return ex.tc.FPCmp(OFPLt, args[0].(*Term), args[1].(*Term))
	})
	reg(vfn("F32Eq"), func(ex *Exec, fr *frame, fn *ssa.Function, args []Value) Value {
		return ex.tc.FPCmp(OFPEq, args[0].(*Term), args[1].(*Term))
	})

	// ---- fmt / log / runtime ----
	for _, n := range []string{"fmt.Print", "fmt.Printf", "fmt.Println", "fmt.Fprintf", "fmt.Fprintln", "fmt.Fprint",
		"log.Println", "log.Printf", "log.Print", "runtime/debug.PrintStack", "runtime.Gosched", "runtime.GC", "time.Sleep",
		"(*sync.WaitGroup).Add", "(*sync.WaitGroup).Done", "(*sync.WaitGroup).Wait", "os.Exit"} {
		reg(n, nop)
	}
	reg("log.Fatalln", func(ex *Exec, fr *frame, fn *ssa.Function, args []Value) Value {
		ex.goPanic("log.Fatalln")
		return nil
	})
	reg("log.Fatal", m["log.Fatalln"])
	reg("log.Fatalf", m["log.Fatalln"])
	reg("runtime.Stack", func(ex *Exec, fr *frame, fn *ssa.Function, args []Value) Value { return ex.i64(0) })
	reg("runtime/debug.Stack", func(ex *Exec, fr *frame, fn *ssa.Function, args []Value) Value {
		return ex.newBytesConc(nil)
	})
	reg("fmt.Sprintf", func(ex *Exec, fr *frame, fn *ssa.Function, args []Value) Value {
		return ex.sprintf(args[0].(Str), args[1].(Slice))
	})
	reg("fmt.Sprint", func(ex *Exec, fr *frame, fn *ssa.Function, args []Value) Value {
		return ex.sprint(args[0].(Slice), false)
	})
	reg("fmt.Sprintln", func(ex *Exec, fr *frame, fn *ssa.Function, args []Value) Value {
		return ex.sprint(args[0].(Slice), true)
	})
	reg("fmt.Errorf", func(ex *Exec, fr *frame, fn *ssa.Function, args []Value) Value {
		return ex.errorValue(ex.sprintf(args[0].(Str), args[1].(Slice)).s)
	})

	// ---- sync ----
	reg("(*sync.Mutex).Lock", func(ex *Exec, fr *frame, fn *ssa.Function, args []Value) Value {
		ms := ex.mutexOf(args[0])
		if ms.w {
			if ex.schedOn {
				ex.yield(func() bool { return !ms.w })
			} else {
				ex.end(OutDeadlock, "Lock of a mutex already held (single-threaded execution) in "+callerName(fr))
			}
		}
		ms.w = true
		return nil
	})
	reg("(*sync.Mutex).TryLock", func(ex *Exec, fr *frame, fn *ssa.Function, args []Value) Value {
		ms := ex.mutexOf(args[0])
		if ms.w {
			return ex.tc.Bool(false)
		}
		ms.w = true
		return ex.tc.Bool(true)
	})
	reg("(*sync.Mutex).Unlock", func(ex *Exec, fr *frame, fn *ssa.Function, args []Value) Value {
		ms := ex.mutexOf(args[0])
		if !ms.w {
			ex.end(OutPanic, "fatal error: sync: unlock of unlocked mutex in "+callerName(fr))
		}
		ms.w = false
		return nil
	})
	reg("(*sync.RWMutex).Lock", func(ex *Exec, fr *frame, fn *ssa.Function, args []Value) Value {
		ms := ex.mutexOf(args[0])
		if ms.w || ms.readers > 0 {
			if ex.schedOn {
				ex.yield(func() bool { return !ms.w && ms.readers == 0 })
			} else {
				ex.end(OutDeadlock, "RWMutex.Lock while held (single-threaded execution) in "+callerName(fr))
			}
		}
		ms.w = true
		return nil
	})
	reg("(*sync.RWMutex).Unlock", func(ex *Exec, fr *frame, fn *ssa.Function, args []Value) Value {
		ms := ex.mutexOf(args[0])
		if !ms.w {
			ex.end(OutPanic, "fatal error: sync: Unlock of unlocked RWMutex in "+callerName(fr))
		}
		ms.w = false
		return nil
	})
	reg("(*sync.RWMutex).RLock", func(ex *Exec, fr *frame, fn *ssa.Function, args []Value) Value {
		ms := ex.mutexOf(args[0])
		if ms.w {
			if ex.schedOn {
				ex.yield(func() bool { return !ms.w })
			} else {
				ex.end(OutDeadlock, "RWMutex.RLock while write-held (single-threaded execution) in "+callerName(fr))
			}
		}
		ms.readers++
		return nil
	})
	reg("(*sync.RWMutex).RUnlock", func(ex *Exec, fr *frame, fn *ssa.Function, args []Value) Value {
		ms := ex.mutexOf(args[0])
		if ms.readers <= 0 {
			ex.end(OutPanic, "fatal error: sync: RUnlock of unlocked RWMutex in "+callerName(fr))
		}
		ms.readers--
		return nil
	})
	reg("(*sync.Pool).Get", func(ex *Exec, fr *frame, fn *ssa.Function, args []Value) Value {
		key := args[0].(*Value)
		if l := ex.pools[key]; len(l) > 0 {
			v := l[len(l)-1]
			ex.pools[key] = l[:len(l)-1]
			return v
		}
		// field New
		st := (*key).(Struct)
		pt := fn.Signature.Recv().Type().(*types.Pointer).Elem().Underlying().(*types.Struct)
		for i := 0; i < pt.NumFields(); i++ {
			if pt.Field(i).Name() == "New" {
				if st[i] == nil {
					return Iface{}
				}
				return ex.callValue(fr, st[i], nil, nil)
			}
		}
		return Iface{}
	})
	reg("(*sync.Pool).Put", func(ex *Exec, fr *frame, fn *ssa.Function, args []Value) Value {
		key := args[0].(*Value)
		ex.pools[key] = append(ex.pools[key], args[1])
		return nil
	})
	// sync.Map as an association list stored in the side table
	syncMap := func(ex *Exec, p Value) *MapObj {
		key := p.(*Value)
		if l := ex.pools[key]; len(l) > 0 {
			return l[0].(*MapObj)
		}
		mo := ex.newMap(nil)
		ex.pools[key] = []Value{mo}
		return mo
	}
	reg("(*sync.Map).Store", func(ex *Exec, fr *frame, fn *ssa.Function, args []Value) Value {
		ex.mapSet(syncMap(ex, args[0]), args[1], args[2])
		return nil
	})
	reg("(*sync.Map).Load", func(ex *Exec, fr *frame, fn *ssa.Function, args []Value) Value {
		mo := syncMap(ex, args[0])
		i := ex.mapFind(mo, args[1])
		if i < 0 {
			return Tuple{Iface{}, ex.tc.Bool(false)}
		}
		return Tuple{mo.vals[i], ex.tc.Bool(true)}
	})
	reg("(*sync.Map).Delete", func(ex *Exec, fr *frame, fn *ssa.Function, args []Value) Value {
		ex.mapDelete(syncMap(ex, args[0]), args[1])
		return nil
	})
	reg("(*sync.Once).Do", func(ex *Exec, fr *frame, fn *ssa.Function, args []Value) Value {
		ms := ex.mutexOf(args[0])
		if !ms.w {
			ms.w = true
			ex.callValue(fr, args[1], nil, nil)
		}
		return nil
	})

	// ---- sync/atomic ----
	atomicAdd := func(ex *Exec, fr *frame, fn *ssa.Function, args []Value) Value {
		old := ex.load(args[0], nil).(*Term)
		nv := ex.tc.Bin(OAdd, old, args[1].(*Term))
		ex.store(args[0], nv)
		return nv
	}
	atomicLoad := func(ex *Exec, fr *frame, fn *ssa.Function, args []Value) Value { return ex.load(args[0], nil) }
	atomicStore := func(ex *Exec, fr *frame, fn *ssa.Function, args []Value) Value {
		ex.store(args[0], args[1])
		return nil
	}
	atomicCAS := func(ex *Exec, fr *frame, fn *ssa.Function, args []Value) Value {
		old := ex.load(args[0], nil).(*Term)
		if ex.branch(ex.tc.Eq(old, args[1].(*Term))) {
			ex.store(args[0], args[2])
			return ex.tc.Bool(true)
		}
		return ex.tc.Bool(false)
	}
	atomicSwap := func(ex *Exec, fr *frame, fn *ssa.Function, args []Value) Value {
		old := ex.load(args[0], nil)
		ex.store(args[0], args[1])
		return old
	}
	for _, t := range []string{"Int32", "Int64", "Uint32", "Uint64", "Uintptr"} {
		reg("sync/atomic.Add"+t, atomicAdd)
		reg("sync/atomic.Load"+t, atomicLoad)
		reg("sync/atomic.Store"+t, atomicStore)
		reg("sync/atomic.CompareAndSwap"+t, atomicCAS)
		reg("sync/atomic.Swap"+t, atomicSwap)
	}

	// ---- bytes.Buffer ----
	reg("bytes.NewBuffer", func(ex *Exec, fr *frame, fn *ssa.Function, args []Value) Value {
		c := new(Value)
		*c = Struct{args[0], ex.i64(0), ex.tc.BV(8, 0)}
		return c
	})
	reg("bytes.NewBufferString", func(ex *Exec, fr *frame, fn *ssa.Function, args []Value) Value {
		c := new(Value)
		*c = Struct{ex.newBytesConc(ex.strBytes(args[0].(Str))), ex.i64(0), ex.tc.BV(8, 0)}
		return c
	})
	reg("(*bytes.Buffer).Write", func(ex *Exec, fr *frame, fn *ssa.Function, args []Value) Value {
		d := args[1].(ByteSlice)
		ex.bufWrite(args[0], d)
		return Tuple{d.len, nilErr()}
	})
	reg("(*bytes.Buffer).WriteString", func(ex *Exec, fr *frame, fn *ssa.Function, args []Value) Value {
		d := ex.newBytesConc(ex.strBytes(args[1].(Str)))
		ex.bufWrite(args[0], d)
		return Tuple{d.len, nilErr()}
	})
	reg("(*bytes.Buffer).WriteByte", func(ex *Exec, fr *frame, fn *ssa.Function, args []Value) Value {
		ex.bufWrite(args[0], ex.newBytesConc([]*Term{args[1].(*Term)}))
		return nilErr()
	})
	reg("(*bytes.Buffer).Bytes", func(ex *Exec, fr *frame, fn *ssa.Function, args []Value) Value {
		s := ex.bufFields(args[0])
		b := s[0].(ByteSlice)
		off := s[1].(*Term)
		if b.arr == nil {
			return b
		}
		return ByteSlice{b.arr, ex.tc.Bin(OAdd, b.off, off), ex.tc.Bin(OSub, b.len, off), ex.tc.Bin(OSub, b.cap, off)}
	})
	reg("(*bytes.Buffer).Len", func(ex *Exec, fr *frame, fn *ssa.Function, args []Value) Value {
		s := ex.bufFields(args[0])
		return ex.tc.Bin(OSub, s[0].(ByteSlice).len, s[1].(*Term))
	})
	reg("(*bytes.Buffer).Reset", func(ex *Exec, fr *frame, fn *ssa.Function, args []Value) Value {
		s := ex.bufFields(args[0])
		b := s[0].(ByteSlice)
		s[0] = ByteSlice{b.arr, b.off, ex.i64(0), b.cap}
		s[1] = ex.i64(0)
		return nil
	})
	reg("(*bytes.Buffer).String", func(ex *Exec, fr *frame, fn *ssa.Function, args []Value) Value {
		if isNilPtr(args[0]) {
			return Str{s: "<nil>"}
		}
		s := ex.bufFields(args[0])
		b := s[0].(ByteSlice)
		off := s[1].(*Term)
		if b.arr == nil {
			return Str{}
		}
		return ex.convert(types.NewSlice(types.Typ[types.Byte]), types.Typ[types.String],
			ByteSlice{b.arr, ex.tc.Bin(OAdd, b.off, off), ex.tc.Bin(OSub, b.len, off), ex.tc.Bin(OSub, b.cap, off)})
	})
	reg("(*bytes.Buffer).Read", func(ex *Exec, fr *frame, fn *ssa.Function, args []Value) Value {
		n, eof := ex.bufRead(args[0], args[1].(ByteSlice))
		if eof {
			return Tuple{n, ex.stdGlobal("io", "EOF")}
		}
		return Tuple{n, nilErr()}
	})

	// ---- encoding/binary ----
	reg("encoding/binary.Write", func(ex *Exec, fr *frame, fn *ssa.Function, args []Value) Value {
		big := ex.isBigEndian(args[1])
		d := args[2].(Iface)
		var out []*Term
		if d.t == nil || !ex.binEncode(big, d.t, d.v, &out) {
			ex.stubHits["binary.Write invalid type"]++
			return ex.errorValue("binary.Write: some values are not fixed-sized in type " + typeName(d.t))
		}
		r := ex.invoke(fr, args[0].(Iface), "Write", ex.newBytesConc(out))
		return r.(Tuple)[1]
	})
	reg("encoding/binary.Read", func(ex *Exec, fr *frame, fn *ssa.Function, args []Value) Value {
		big := ex.isBigEndian(args[1])
		d := args[2].(Iface)
		var et types.Type
		var isSlice bool
		if d.t != nil {
			switch u := d.t.Underlying().(type) {
			case *types.Pointer:
				et = u.Elem()
			case *types.Slice:
				et = u.Elem()
				isSlice = true
			}
		}
		size := -1
		if et != nil {
			size = ex.binSize(et)
		}
		if isSlice {
			ex.unsupported("binary.Read into slice")
		}
		if size < 0 {
			return ex.errorValue("binary.Read: invalid type " + typeName(d.t))
		}
		// io.ReadFull
		tmp := ex.newByteArrZero(ex.i64(uint64(size)))
		got := 0
		for got < size {
			dst := ByteSlice{tmp, ex.i64(uint64(got)), ex.i64(uint64(size - got)), ex.i64(uint64(size - got))}
			r := ex.invoke(fr, args[0].(Iface), "Read", dst).(Tuple)
			n := int(ex.concretize(r[0].(*Term), "binary.Read chunk"))
			got += n
			if e := r[1].(Iface); e.t != nil {
				if got >= size {
					break
				}
				if got == 0 {
					return e
				}
				return ex.stdGlobal("io", "ErrUnexpectedEOF")
			}
			if n == 0 {
				ex.end(OutNonTerm, "binary.Read: reader makes no progress")
			}
		}
		bs := make([]*Term, size)
		for i := range bs {
			bs[i] = tmp.Read(ex.i64(uint64(i)))
		}
		pos := 0
		v, ok := ex.binDecode(big, et, bs, &pos)
		if !ok {
			return ex.errorValue("binary.Read: invalid type " + typeName(d.t))
		}
		ex.store(d.v, v)
		return nilErr()
	})
	endian := func(big bool, n int, put bool) intrinsic {
		return func(ex *Exec, fr *frame, fn *ssa.Function, args []Value) Value {
			b := args[1].(ByteSlice)
			if !ex.branch(ex.tc.Cmp(OULE, ex.i64(uint64(n)), b.len)) {
				ex.goPanic("index out of range (binary byte order)")
			}
			if put {
				v := args[2].(*Term)
				for i := 0; i < n; i++ {
					k := i
					if big {
						k = n - 1 - i
					}
					b.arr.Write(ex.tc.Bin(OAdd, b.off, ex.i64(uint64(i))), ex.tc.Extract(8*k+7, 8*k, v))
				}
				return nil
			}
			var r *Term
			for i := 0; i < n; i++ {
				k := i
				if !big {
					k = n - 1 - i
				}
				bt := b.arr.Read(ex.tc.Bin(OAdd, b.off, ex.i64(uint64(k))))
				if r == nil {
					r = bt
				} else {
					r = ex.tc.Concat(r, bt)
				}
			}
			return r
		}
	}
	for _, e := range []struct {
		n   string
		big bool
	}{{"littleEndian", false}, {"bigEndian", true}} {
		for _, w := range []int{16, 32, 64} {
			reg(fmt.Sprintf("(encoding/binary.%s).Uint%d", e.n, w), endian(e.big, w/8, false))
			reg(fmt.Sprintf("(encoding/binary.%s).PutUint%d", e.n, w), endian(e.big, w/8, true))
		}
	}

	// ---- math ----
	reg("math.Float32bits", func(ex *Exec, fr *frame, fn *ssa.Function, args []Value) Value { return args[0] })
	reg("math.Float32frombits", m["math.Float32bits"])
	reg("math.Float64bits", m["math.Float32bits"])
	reg("math.Float64frombits", m["math.Float32bits"])
	math1 := func(f func(float64) float64) intrinsic {
		return func(ex *Exec, fr *frame, fn *ssa.Function, args []Value) Value {
			x := args[0].(*Term)
			if x.IsConst() {
				return ex.tc.BV(64, math.Float64bits(f(math.Float64frombits(x.val))))
			}
			ex.havocs++
			return ex.fresh("havocf64", 64)
		}
	}
	math2 := func(f func(a, b float64) float64) intrinsic {
		return func(ex *Exec, fr *frame, fn *ssa.Function, args []Value) Value {
			x, y := args[0].(*Term), args[1].(*Term)
			if x.IsConst() && y.IsConst() {
				return ex.tc.BV(64, math.Float64bits(f(math.Float64frombits(x.val), math.Float64frombits(y.val))))
			}
			ex.havocs++
			return ex.fresh("havocf64", 64)
		}
	}
	reg("math.Floor", math1(math.Floor))
	reg("math.Ceil", math1(math.Ceil))
	reg("math.Sqrt", math1(math.Sqrt))
	reg("math.Log", math1(math.Log))
	reg("math.Log2", math1(math.Log2))
	reg("math.Abs", math1(math.Abs))
	reg("math.Max", math2(math.Max))
	reg("math.Min", math2(math.Min))
	reg("math.Pow", math2(math.Pow))
	reg("math.IsNaN", func(ex *Exec, fr *frame, fn *ssa.Function, args []Value) Value {
		return ex.tc.FPIsNaN(args[0].(*Term))
	})

	// ---- math/rand: arbitrary values ----
	reg(vfn("MapOrders"), func(ex *Exec, fr *frame, fn *ssa.Function, args []Value) Value {
		ex.mapOrders = args[0].(*Term).IsTrue()
		return nil
	})
	reg(vfn("MapOrdersIn"), func(ex *Exec, fr *frame, fn *ssa.Function, args []Value) Value {
		ex.mapOrderFn = ex.concStrArg(args[0], "MapOrdersIn")
		ex.mapOrders = ex.mapOrderFn != ""
		return nil
	})
	reg(vfn("Sched"), func(ex *Exec, fr *frame, fn *ssa.Function, args []Value) Value {
		// Sched("a,b"): from now on `go` statements of functions whose name contains one of the substrings run
		// under the cooperative scheduler (every schedule at channel/mutex granularity explored)
		l := ex.concStrArg(args[0], "Sched")
		ex.schedOn = l != ""
		ex.schedAllow = strings.Split(l, ",")
		if ex.schedOn && len(ex.gors) == 0 {
			ex.schedInit()
		}
		return nil
	})
	// Yield(): explicit voluntary switch point (e.g. "this I/O takes a while"); counts against the preemption bound
	reg(vfn("Yield"), func(ex *Exec, fr *frame, fn *ssa.Function, args []Value) Value {
		ex.yield(nil)
		return nil
	})
	reg(vfn("SchedPreempt"), func(ex *Exec, fr *frame, fn *ssa.Function, args []Value) Value {
		ex.preemptLeft = int(ex.concretize(args[0].(*Term), "SchedPreempt"))
		return nil
	})
	reg(vfn("RandBudget"), func(ex *Exec, fr *frame, fn *ssa.Function, args []Value) Value {
		ex.randBudget = int(ex.concretize(args[0].(*Term), "RandBudget"))
		return nil
	})
	reg("math/rand.Float32", func(ex *Exec, fr *frame, fn *ssa.Function, args []Value) Value {
		if ex.randBudget <= 0 {
			// deterministic tail: 0.99 (no further skip-list level etc.)
			return ex.tc.BV(32, uint64(math.Float32bits(0.99)))
		}
		ex.randBudget--
		v := ex.fresh("randf32", 32)
		ex.recordInput(v.name, "rand", 0, v)
		tc := ex.tc
		zero := tc.BV(32, 0)
		one := tc.BV(32, uint64(math.Float32bits(1.0)))
		ex.addPC(tc.And(tc.FPCmp(OFPLe, zero, v), tc.FPCmp(OFPLt, v, one)))
		ex.addPC(tc.Cmp(OULT, v, one)) // non-negative, below 1.0 as bit pattern (excludes -0)
		return v
	})
	randInt := func(w int, bounded bool) intrinsic {
		return func(ex *Exec, fr *frame, fn *ssa.Function, args []Value) Value {
			if ex.randBudget <= 0 {
				return ex.tc.BV(w, 0)
			}
			ex.randBudget--
			v := ex.fresh(fmt.Sprintf("rand%d", w), Sort(w))
			ex.recordInput(v.name, "rand", 0, v)
			ex.addPC(ex.tc.Cmp(OSLE, ex.tc.BV(w, 0), v))
			if bounded {
				ex.addPC(ex.tc.Cmp(OSLT, v, args[0].(*Term)))
			}
			return v
		}
	}
	reg("math/rand.Int31", randInt(32, false))
	reg("math/rand.Int31n", randInt(32, true))
	reg("math/rand.Intn", randInt(64, true))
	reg("math/rand.Int", randInt(64, false))
	reg("math/rand.Int63", randInt(64, false))
	reg("math/rand.Seed", nop)
	reg("math/rand.Shuffle", nop)

	// ---- strings / strconv on concrete data ----
	reg("strings.Contains", func(ex *Exec, fr *frame, fn *ssa.Function, args []Value) Value {
		return ex.tc.Bool(strings.Contains(ex.concStrArg(args[0], "strings.Contains"), ex.concStrArg(args[1], "strings.Contains")))
	})
	reg("strings.LastIndex", func(ex *Exec, fr *frame, fn *ssa.Function, args []Value) Value {
		return ex.i64(uint64(strings.LastIndex(ex.concStrArg(args[0], "strings.LastIndex"), ex.concStrArg(args[1], "strings.LastIndex"))))
	})
	reg("strings.Index", func(ex *Exec, fr *frame, fn *ssa.Function, args []Value) Value {
		return ex.i64(uint64(strings.Index(ex.concStrArg(args[0], "strings.Index"), ex.concStrArg(args[1], "strings.Index"))))
	})
	reg("strings.HasPrefix", func(ex *Exec, fr *frame, fn *ssa.Function, args []Value) Value {
		return ex.tc.Bool(strings.HasPrefix(ex.concStrArg(args[0], "strings.HasPrefix"), ex.concStrArg(args[1], "strings.HasPrefix")))
	})
	reg("strings.HasSuffix", func(ex *Exec, fr *frame, fn *ssa.Function, args []Value) Value {
		return ex.tc.Bool(strings.HasSuffix(ex.concStrArg(args[0], "strings.HasSuffix"), ex.concStrArg(args[1], "strings.HasSuffix")))
	})
	reg("strings.ToLower", func(ex *Exec, fr *frame, fn *ssa.Function, args []Value) Value {
		return Str{s: strings.ToLower(ex.concStrArg(args[0], "strings.ToLower"))}
	})
	reg("strings.ToUpper", func(ex *Exec, fr *frame, fn *ssa.Function, args []Value) Value {
		return Str{s: strings.ToUpper(ex.concStrArg(args[0], "strings.ToUpper"))}
	})
	reg("strings.TrimSpace", func(ex *Exec, fr *frame, fn *ssa.Function, args []Value) Value {
		return Str{s: strings.TrimSpace(ex.concStrArg(args[0], "strings.TrimSpace"))}
	})
	reg("strings.Split", func(ex *Exec, fr *frame, fn *ssa.Function, args []Value) Value {
		return ex.strSlice(strings.Split(ex.concStrArg(args[0], "strings.Split"), ex.concStrArg(args[1], "strings.Split")))
	})
	reg("strings.Join", func(ex *Exec, fr *frame, fn *ssa.Function, args []Value) Value {
		s := args[0].(Slice)
		var parts []string
		for i := 0; i < s.len; i++ {
			parts = append(parts, ex.concStrArg(s.arr.elems[s.off+i], "strings.Join"))
		}
		return Str{s: strings.Join(parts, ex.concStrArg(args[1], "strings.Join"))}
	})
	reg("strings.Compare", func(ex *Exec, fr *frame, fn *ssa.Function, args []Value) Value {
		a, b := args[0].(Str), args[1].(Str)
		lt := ex.bytesLess(ex.strBytes(a), ex.strBytes(b), false)
		gt := ex.bytesLess(ex.strBytes(b), ex.strBytes(a), false)
		return ex.tc.Ite(lt, ex.tc.BV(64, ^uint64(0)), ex.tc.Ite(gt, ex.i64(1), ex.i64(0)))
	})
	reg("strconv.Itoa", func(ex *Exec, fr *frame, fn *ssa.Function, args []Value) Value {
		x := args[0].(*Term)
		if !x.IsConst() {
			return Str{s: "<sym>"}
		}
		return Str{s: strconv.Itoa(int(x.Int()))}
	})
	reg("strconv.FormatFloat", func(ex *Exec, fr *frame, fn *ssa.Function, args []Value) Value {
		x := args[0].(*Term)
		if !x.IsConst() {
			return Str{s: "<sym>"}
		}
		return Str{s: strconv.FormatFloat(math.Float64frombits(x.val), byte(args[1].(*Term).val), int(args[2].(*Term).Int()), int(args[3].(*Term).Int()))}
	})
	reg("strconv.Atoi", func(ex *Exec, fr *frame, fn *ssa.Function, args []Value) Value {
		n, err := strconv.Atoi(ex.concStrArg(args[0], "strconv.Atoi"))
		if err != nil {
			return Tuple{ex.i64(0), ex.errorValue(err.Error())}
		}
		return Tuple{ex.i64(uint64(n)), nilErr()}
	})
	// bytes.Compare / Equal as formulas (concrete lengths, forks otherwise)
	reg("bytes.Compare", func(ex *Exec, fr *frame, fn *ssa.Function, args []Value) Value {
		a := ex.sliceByteTerms(args[0].(ByteSlice), "bytes.Compare a")
		b := ex.sliceByteTerms(args[1].(ByteSlice), "bytes.Compare b")
		lt := ex.bytesLess(a, b, false)
		gt := ex.bytesLess(b, a, false)
		return ex.tc.Ite(lt, ex.tc.BV(64, ^uint64(0)), ex.tc.Ite(gt, ex.i64(1), ex.i64(0)))
	})
	reg("bytes.Equal", func(ex *Exec, fr *frame, fn *ssa.Function, args []Value) Value {
		a := ex.sliceByteTerms(args[0].(ByteSlice), "bytes.Equal a")
		b := ex.sliceByteTerms(args[1].(ByteSlice), "bytes.Equal b")
		if len(a) != len(b) {
			return ex.tc.Bool(false)
		}
		r := ex.tc.Bool(true)
		for i := range a {
			r = ex.tc.And(r, ex.tc.Eq(a[i], b[i]))
		}
		return r
	})

	// ---- hash.GenHashMurMur: uninterpreted function of the key bytes (deterministic, collisions possible) ----
	reg("github.com/ryogrid/SamehadaDB/lib/container/hash.GenHashMurMur", func(ex *Exec, fr *frame, fn *ssa.Function, args []Value) Value {
		bs := ex.sliceByteTerms(args[0].(ByteSlice), "GenHashMurMur key")
		allConc := true
		for _, b := range bs {
			if !b.IsConst() {
				allConc = false
				break
			}
		}
		if allConc && os.Getenv("GOSYM_MURMUR_UF_ALWAYS") == "" {
			// concrete key: run the real implementation (exact hash, no artificial collisions between constants)
			// and tie the uninterpreted function to it at this point, so that a symbolic key which equals these
			// bytes hashes to the same value
			r := ex.callFnBody(fr, fn, args, nil)
			if rt, ok := r.(*Term); ok {
				ex.addPC(ex.tc.Eq(ex.tc.UF(fmt.Sprintf("murmur%d", len(bs)), 32, bs...), rt))
				// an earlier decision of this path may have taken murmur(symbolic key) != this value with the key equal
				// to these bytes: such a path does not exist
				if ex.checkPC(nil) == Unsat {
					ex.end(OutInfeasible, "hash axiom contradicts the path")
				}
			}
			return r
		}
		return ex.tc.UF(fmt.Sprintf("murmur%d", len(bs)), 32, bs...)
	})

	// ---- sort.Slice: insertion sort through the interpreted comparison ----
	sortSlice := func(ex *Exec, fr *frame, fn *ssa.Function, args []Value) Value {
		x := args[0].(Iface)
		s, ok := x.v.(Slice)
		if !ok {
			ex.unsupported(fmt.Sprintf("sort.Slice on %T", x.v))
		}
		less := args[1]
		for i := 1; i < s.len; i++ {
			for j := i; j > 0; j-- {
				r := ex.callValue(fr, less, []Value{ex.i64(uint64(j)), ex.i64(uint64(j - 1))}, nil).(*Term)
				if !ex.branch(r) {
					break
				}
				e := s.arr.elems
				e[s.off+j], e[s.off+j-1] = e[s.off+j-1], e[s.off+j]
			}
		}
		return nil
	}
	reg("sort.Slice", sortSlice)
	reg("sort.SliceStable", sortSlice)

	// ---- time ----
	reg("time.Now", func(ex *Exec, fr *frame, fn *ssa.Function, args []Value) Value {
		return ex.zero(fn.Signature.Results().At(0).Type())
	})

	registerFileIntrinsics(reg)
	return m
}

func callerName(fr *frame) string {
	if fr == nil {
		return "?"
	}
	return fr.fn.String()
}

func (ex *Exec) noteVal(v Value) string {
	switch x := v.(type) {
	case Iface:
		return ex.noteVal(x.v)
	case *Term:
		return x.String()
	case Str:
		if x.IsConc() {
			return x.s
		}
	}
	return fmt.Sprintf("%T", v)
}

func (ex *Exec) doAssert(c *Term, label string, fr *frame) {
	st := ex.asserts[label]
	if st == nil {
		st = &assertStat{}
		ex.asserts[label] = st
	}
	if c.IsConst() {
		st.Reached++
		if c.val == 1 {
			st.Discharged++
			return
		}
		ex.reportViolation(label, fr, true)
	}
	pos := len(ex.decisions)
	if pos < len(ex.prefix) {
		// already decided (and counted) on the ancestor path this one was forked from
		ex.decisions = append(ex.decisions, ex.prefix[pos])
		ex.addPC(c)
		return
	}
	st.Reached++
	st.Queries++
	tq := time.Now()
	r := ex.checkPC(ex.tc.Not(c))
	dq := time.Since(tq).Milliseconds()
	st.Ms += dq
	if dq > st.MaxMs {
		st.MaxMs = dq
	}
	switch r {
	case Unsat:
		st.Discharged++
	case Sat:
		ex.reportViolation(label, fr, false)
	default:
		ex.inconcl++
		ex.notes = append(ex.notes, "inconclusive assertion: "+label)
	}
	ex.decisions = append(ex.decisions, 1)
	ex.addPC(c)
}

func (ex *Exec) reportViolation(label string, fr *frame, needCheck bool) {
	v := &Violation{Label: label, Model: map[string]uint64{}, Where: callerName(fr), Notes: ex.notes, Inputs: ex.inputs}
	ok := true
	if needCheck {
		r := ex.checkPC(nil)
		if r == Unsat {
			ex.end(OutInfeasible, "assertion reached on an infeasible path")
		}
		ok = r == Sat
	}
	if ok {
		var vars []*Term
		for _, t := range ex.inputTerms {
			if t != nil && t.op == OVar && t.sort != SArr {
				vars = append(vars, t)
			}
		}
		v.Model = ex.solver.Values(vars)
		// array inputs: evaluate every cell
		for i, t := range ex.inputTerms {
			if t != nil && t.sort == SArr {
				n := ex.inputs[i].N
				sel := make([]*Term, n)
				for k := 0; k < n; k++ {
					sel[k] = ex.tc.Select(t, ex.tc.BV(32, uint64(k)))
				}
				m := ex.solver.Values(sel)
				bs := make([]int, n)
				for k := 0; k < n; k++ {
					bs[k] = int(m[ref(sel[k])])
				}
				if v.Arrays == nil {
					v.Arrays = map[string][]int{}
				}
				v.Arrays[t.name] = bs
			}
		}
	}
	if ok && len(ex.crashImages) > 0 {
		v.Crash = ex.dumpCrashImages()
	}
	ex.violation = v
	ex.end(OutViolation, label)
}

// modelForPath produces concrete input values for a path that ended in a runtime fault.
func (ex *Exec) modelForPath(label string) (v *Violation) {
	defer func() {
		if r := recover(); r != nil {
			v = nil
		}
	}()
	if ex.checkPC(nil) != Sat {
		return nil
	}
	v = &Violation{Label: label, Model: map[string]uint64{}, Notes: ex.notes, Inputs: ex.inputs}
	var vars []*Term
	for _, t := range ex.inputTerms {
		if t != nil && t.op == OVar && t.sort != SArr {
			vars = append(vars, t)
		}
	}
	v.Model = ex.solver.Values(vars)
	for i, t := range ex.inputTerms {
		if t != nil && t.sort == SArr {
			n := ex.inputs[i].N
			sel := make([]*Term, n)
			for k := 0; k < n; k++ {
				sel[k] = ex.tc.Select(t, ex.tc.BV(32, uint64(k)))
			}
			m := ex.solver.Values(sel)
			bs := make([]int, n)
			for k := 0; k < n; k++ {
				bs[k] = int(m[ref(sel[k])])
			}
			if v.Arrays == nil {
				v.Arrays = map[string][]int{}
			}
			v.Arrays[t.name] = bs
		}
	}
	if len(ex.crashImages) > 0 {
		v.Crash = ex.dumpCrashImages()
	}
	return v
}
