package main

import (
	"fmt"
	"go/constant"
	"go/token"
	"go/types"
	"math"
	"os"
	"strings"

	"golang.org/x/tools/go/ssa"
)

type Outcome string

const (
	OutOK          Outcome = "ok"
	OutInfeasible  Outcome = "infeasible"
	OutPanic       Outcome = "panic"
	OutViolation   Outcome = "violation"
	OutIncomplete  Outcome = "incomplete"
	OutUnsupported Outcome = "unsupported"
	OutDeadlock    Outcome = "deadlock"
	OutNonTerm     Outcome = "nontermination"
)

type pathEnd struct {
	out Outcome
	msg string
}

// interpreted-Go panic travelling through the Go stack
type goPanicT struct {
	val Value // interface value passed to panic()
	msg string
}

type Config struct {
	Unwind    int
	MaxSteps  int
	TimeoutMs int
	SolverBin string
	Verbose   bool
	MaxAlts   int
}

type frame struct {
	fn        *ssa.Function
	env       map[ssa.Value]Value
	block     *ssa.BasicBlock
	prev      *ssa.BasicBlock
	defers    []*deferred
	result    Value
	panicking *goPanicT
	caller    *frame
	symVisits map[*ssa.BasicBlock]int
	depth     int
	recovered bool
}

type deferred struct {
	fn   Value
	args []Value
	site ssa.Instruction
}

type mstate struct {
	w       bool
	readers int
}

type Violation struct {
	Label  string            `json:"label"`
	Model  map[string]uint64 `json:"model"`
	Where  string            `json:"where"`
	Notes  []string          `json:"notes,omitempty"`
	Inputs []InputRec        `json:"inputs"`
	Arrays map[string][]int  `json:"arrays,omitempty"`
	Crash  []map[string][]byte `json:"crash,omitempty"`
}

type NativeFn func(ex *Exec, fr *frame, args []Value) Value

type nativeObj interface {
	method(name string) NativeFn
}

type InputRec struct {
	Name string `json:"name"`
	Kind string `json:"kind"`
	N    int    `json:"n,omitempty"`
}

type Exec struct {
	prog   *ssa.Program
	tc     *TermCtx
	solver *Solver
	cfg    *Config
	intr   map[string]intrinsic

	// per path
	prefix     []int64
	excl       []int64 // exclusion list for the concretisation at len(prefix)
	decisions  []int64
	pc         []*Term
	pending    []workItem
	globals    map[*ssa.Global]*Value
	pkgInit    map[*ssa.Package]bool
	steps      int
	varSeq     int
	arrSeq     int
	mutexes    map[interface{}]*mstate
	pools      map[interface{}][]Value
	covers     map[string]bool
	notes      []string
	inputs     []InputRec
	inputTerms []*Term
	violation  *Violation
	inconcl    int
	havocs     int
	asserts    map[string]*assertStat
	fs         *fileModel
	crashImages []crashImage
	goroutines int
	randBudget int
	mapOrders  bool
	mapOrderFn string
	expectPanicDepth int
	local            *localCtx
	schedOn          bool
	preemptLeft      int
	schedAllow       []string
	gors             []*gor
	curG             *gor
	gorPanic         interface{}
	mergeFns         map[string]bool
	curFrame   *frame
	chanSeq    int
	clock      *Term
	errTypes   map[string]types.Type

	noSimp      bool
	tcGen       *TermCtx
	pcHash      uint64
	simpCache   map[[2]uint64]bool
	simpQueries int

	// per worker (accumulated)
	funcInstr map[string]int
	stubHits  map[string]int
}

type assertStat struct {
	Reached    int
	Discharged int
	Queries    int
	Ms         int64
	MaxMs      int64
}

type workItem struct {
	prefix []int64
	excl   []int64
}

type intrinsic func(ex *Exec, fr *frame, fn *ssa.Function, args []Value) Value

func (ex *Exec) end(out Outcome, msg string) {
	panic(pathEnd{out, msg})
}
func (ex *Exec) unsupported(msg string) {
	if ex.curFrame != nil {
		msg += " [in"
		n := 0
		for f := ex.curFrame; f != nil && n < 6; f, n = f.caller, n+1 {
			msg += " " + f.fn.String() + " <-"
		}
		msg += "]"
	}
	panic(pathEnd{OutUnsupported, msg})
}
func (ex *Exec) goPanic(msg string) {
	if os.Getenv("GOSYM_PANICSTACK") != "" && ex.curFrame != nil {
		msg += " [in"
		n := 0
		for f := ex.curFrame; f != nil && n < 8; f, n = f.caller, n+1 {
			msg += " " + f.fn.String() + " <-"
		}
		msg += "]"
	}
	panic(&goPanicT{val: Iface{t: types.Typ[types.String], v: Str{s: msg}}, msg: msg})
}

func (ex *Exec) fresh(label string, s Sort) *Term {
	ex.varSeq++
	return ex.tc.Var(fmt.Sprintf("%s_%d", label, ex.varSeq), s)
}

func (ex *Exec) resetPath(item workItem) {
	ex.prefix = item.prefix
	ex.excl = item.excl
	ex.decisions = ex.decisions[:0]
	ex.pc = ex.pc[:0]
	ex.pcHash = 0
	if ex.simpCache == nil || ex.tcGen != ex.tc {
		ex.simpCache = map[[2]uint64]bool{}
		ex.tcGen = ex.tc
	}
	ex.pending = nil
	ex.globals = map[*ssa.Global]*Value{}
	ex.pkgInit = map[*ssa.Package]bool{}
	ex.steps = 0
	ex.varSeq = 0
	ex.arrSeq = 0
	ex.mutexes = map[interface{}]*mstate{}
	ex.pools = map[interface{}][]Value{}
	ex.covers = map[string]bool{}
	ex.notes = nil
	ex.inputs = nil
	ex.inputTerms = nil
	ex.violation = nil
	ex.inconcl = 0
	ex.havocs = 0
	ex.asserts = map[string]*assertStat{}
	ex.fs = newFileModel()
	ex.crashImages = nil
	ex.goroutines = 0
	ex.randBudget = 0
	ex.mapOrders = false
	ex.mapOrderFn = ""
	ex.schedOn = false
	ex.preemptLeft = 1
	ex.schedAllow = nil
	ex.gors = nil
	ex.curG = nil
	ex.gorPanic = nil
	ex.expectPanicDepth = 0
	ex.curFrame = nil
	ex.clock = nil
}

// ---------- decisions ----------

func (ex *Exec) checkPC(extra *Term) Result {
	as := make([]*Term, 0, len(ex.pc)+1)
	as = append(as, ex.pc...)
	if extra != nil {
		as = append(as, extra)
	}
	return ex.solver.Check(as)
}

func (ex *Exec) addPC(c *Term) {
	if c.IsTrue() {
		return
	}
	ex.pc = append(ex.pc, c)
	ex.pcHash = ex.pcHash*1000003 + uint64(c.id) + 7
}

// cannot reports whether c is impossible under the current path condition (solver-aided
// simplification; an Unknown verdict counts as "possible"). Results are cached per worker.
func (ex *Exec) cannot(c *Term) bool {
	if c.IsConst() {
		return c.val == 0
	}
	if ex.noSimp {
		return false
	}
	key := [2]uint64{ex.pcHash, uint64(c.id)}
	if r, ok := ex.simpCache[key]; ok {
		return r
	}
	ex.simpQueries++
	r := ex.checkPC(c) == Unsat
	if len(ex.simpCache) > 2000000 {
		ex.simpCache = map[[2]uint64]bool{}
	}
	ex.simpCache[key] = r
	return r
}

func clonePrefix(d []int64, extra int64) []int64 {
	n := make([]int64, len(d)+1)
	copy(n, d)
	n[len(d)] = extra
	return n
}

// branch decides a symbolic condition; forks when both sides are feasible.
func (ex *Exec) branch(c *Term) bool {
	if c.IsConst() {
		return c.val == 1
	}
	if ex.local != nil {
		return ex.branchLocal(c)
	}
	pos := len(ex.decisions)
	if pos < len(ex.prefix) {
		d := ex.prefix[pos]
		ex.decisions = append(ex.decisions, d)
		if d == 1 {
			ex.addPC(c)
		} else {
			ex.addPC(ex.tc.Not(c))
		}
		return d == 1
	}
	if fr := ex.curFrame; fr != nil && fr.block != nil {
		if fr.symVisits == nil {
			fr.symVisits = map[*ssa.BasicBlock]int{}
		}
		fr.symVisits[fr.block]++
		if fr.symVisits[fr.block] > ex.cfg.Unwind {
			ex.end(OutIncomplete, fmt.Sprintf("unwind bound %d exceeded in %s block %d", ex.cfg.Unwind, fr.fn.String(), fr.block.Index))
		}
	}
	rt := ex.checkPC(c)
	var rf Result
	if rt == Unsat {
		rf = Sat // pc is feasible by construction
	} else {
		rf = ex.checkPC(ex.tc.Not(c))
	}
	if rt == Unknown || rf == Unknown {
		ex.inconcl++
	}
	tf := rt != Unsat
	ff := rf != Unsat
	switch {
	case tf && ff:
		if ex.curFrame != nil {
			ex.stubHits["fork@"+ex.curFrame.fn.String()]++
			if d := os.Getenv("GOSYM_FORKDBG"); d != "" && strings.Contains(ex.curFrame.fn.String(), d) {
				fmt.Fprintf(os.Stderr, "FORK in %s block %d: %s\n", ex.curFrame.fn.Name(), ex.curFrame.block.Index, dumpTerm(c, 4))
			}
		}
		ex.pending = append(ex.pending, workItem{prefix: clonePrefix(ex.decisions, 0)})
		ex.decisions = append(ex.decisions, 1)
		ex.addPC(c)
		return true
	case tf:
		ex.decisions = append(ex.decisions, 1)
		ex.addPC(c)
		return true
	case ff:
		ex.decisions = append(ex.decisions, 0)
		ex.addPC(ex.tc.Not(c))
		return false
	}
	ex.end(OutInfeasible, "both branch sides infeasible")
	return false
}

type localCtx struct {
	prefix    []int64
	decisions []int64
	pending   [][]int64
}

func (ex *Exec) branchLocal(c *Term) bool {
	l := ex.local
	pos := len(l.decisions)
	if pos < len(l.prefix) {
		d := l.prefix[pos]
		l.decisions = append(l.decisions, d)
		if d == 1 {
			ex.addPC(c)
		} else {
			ex.addPC(ex.tc.Not(c))
		}
		return d == 1
	}
	rt := ex.checkPC(c)
	var rf Result
	if rt == Unsat {
		rf = Sat
	} else {
		rf = ex.checkPC(ex.tc.Not(c))
	}
	if rt == Unknown || rf == Unknown {
		ex.inconcl++
	}
	tf, ff := rt != Unsat, rf != Unsat
	switch {
	case tf && ff:
		l.pending = append(l.pending, clonePrefix(l.decisions, 0))
		l.decisions = append(l.decisions, 1)
		ex.addPC(c)
		return true
	case tf:
		l.decisions = append(l.decisions, 1)
		ex.addPC(c)
		return true
	case ff:
		l.decisions = append(l.decisions, 0)
		ex.addPC(ex.tc.Not(c))
		return false
	}
	ex.end(OutInfeasible, "both branch sides infeasible (merge)")
	return false
}

// mergeCall runs a side-effect-free function on all of its feasible paths and joins the results into
// one ite-term, so that the caller does not fork (function summarisation by state merging).
func (ex *Exec) mergeCall(caller *frame, fn *ssa.Function, args []Value) Value {
	if ex.local != nil {
		return ex.callFnBody(caller, fn, args, nil)
	}
	basePC := len(ex.pc)
	baseHash := ex.pcHash
	type res struct {
		cond *Term
		v    Value
	}
	var results []res
	work := [][]int64{nil}
	defer func() { ex.local = nil }()
	for len(work) > 0 {
		pre := work[len(work)-1]
		work = work[:len(work)-1]
		ex.pc = ex.pc[:basePC]
		ex.pcHash = baseHash
		ex.local = &localCtx{prefix: pre}
		cargs := make([]Value, len(args))
		for i, a := range args {
			cargs[i] = ex.copyVal(a)
		}
		v := ex.callFnBody(caller, fn, cargs, nil)
		cond := ex.tc.Bool(true)
		for _, c := range ex.pc[basePC:] {
			cond = ex.tc.And(cond, c)
		}
		results = append(results, res{cond, v})
		work = append(work, ex.local.pending...)
		if len(results) > 256 {
			ex.end(OutIncomplete, "merge: more than 256 paths in "+fn.String())
		}
	}
	ex.local = nil
	ex.pc = ex.pc[:basePC]
	ex.pcHash = baseHash
	ex.stubHits["merged:"+fn.String()]++
	acc := results[len(results)-1].v
	for i := len(results) - 2; i >= 0; i-- {
		acc = ex.mergeVals(results[i].cond, results[i].v, acc, fn)
	}
	return acc
}

func (ex *Exec) mergeVals(c *Term, a, b Value, fn *ssa.Function) Value {
	switch x := a.(type) {
	case *Term:
		return ex.tc.Ite(c, x, b.(*Term))
	case Tuple:
		y := b.(Tuple)
		out := make(Tuple, len(x))
		for i := range x {
			out[i] = ex.mergeVals(c, x[i], y[i], fn)
		}
		return out
	case nil:
		return nil
	}
	ex.unsupported("merge of result type in " + fn.String())
	return nil
}

// choose: n-way nondeterministic choice (no solver involved)
func (ex *Exec) choose(n int) int {
	if n <= 0 {
		ex.end(OutInfeasible, "choose(0)")
	}
	if n == 1 {
		return 0
	}
	pos := len(ex.decisions)
	if pos < len(ex.prefix) {
		d := ex.prefix[pos]
		ex.decisions = append(ex.decisions, d)
		return int(d)
	}
	for i := n - 1; i >= 1; i-- {
		ex.pending = append(ex.pending, workItem{prefix: clonePrefix(ex.decisions, int64(i))})
	}
	ex.decisions = append(ex.decisions, 0)
	return 0
}

// concretize picks a concrete value for t (forking over all feasible values, bounded by MaxAlts).
func (ex *Exec) concretize(t *Term, what string) uint64 {
	if t.IsConst() {
		return t.val
	}
	pos := len(ex.decisions)
	if pos < len(ex.prefix) {
		v := uint64(ex.prefix[pos])
		ex.decisions = append(ex.decisions, int64(v))
		ex.addPC(ex.tc.Eq(t, ex.tc.BV(int(t.sort), v)))
		return v
	}
	var excl []int64
	if pos == len(ex.prefix) {
		excl = ex.excl
	}
	as := append([]*Term{}, ex.pc...)
	for _, e := range excl {
		as = append(as, ex.tc.Not(ex.tc.Eq(t, ex.tc.BV(int(t.sort), uint64(e)))))
	}
	r := ex.solver.Check(as)
	if r == Unsat {
		ex.end(OutInfeasible, "no further value for "+what)
	}
	if r == Unknown {
		ex.inconcl++
		ex.end(OutIncomplete, "solver unknown while concretising "+what)
	}
	v, ok := ex.solver.EvalTerm(t)
	if !ok {
		ex.end(OutIncomplete, "no model value for "+what)
	}
	if len(excl)+1 >= ex.cfg.MaxAlts {
		ex.end(OutIncomplete, fmt.Sprintf("more than %d values for %s", ex.cfg.MaxAlts, what))
	}
	nex := make([]int64, len(excl)+1)
	copy(nex, excl)
	nex[len(excl)] = int64(v)
	ex.pending = append(ex.pending, workItem{prefix: append([]int64{}, ex.decisions...), excl: nex})
	ex.decisions = append(ex.decisions, int64(v))
	ex.addPC(ex.tc.Eq(t, ex.tc.BV(int(t.sort), v)))
	return v
}

// concIdx concretises an index known to be within [0,n)
func (ex *Exec) concIdx(t *Term, n int) int {
	if t.IsConst() {
		return int(t.Int())
	}
	for i := 0; i < n; i++ {
		if ex.branch(ex.tc.Eq(t, ex.tc.BV(int(t.sort), uint64(i)))) {
			return i
		}
	}
	ex.end(OutInfeasible, "index out of all cases")
	return -1
}

// ---------- globals and package init ----------

func (ex *Exec) ensureInit(pkg *ssa.Package) {
	if pkg == nil || ex.pkgInit[pkg] {
		return
	}
	ex.pkgInit[pkg] = true
	// allocate globals
	for _, m := range pkg.Members {
		if g, ok := m.(*ssa.Global); ok {
			if _, ok := ex.globals[g]; !ok {
				cell := new(Value)
				*cell = ex.zero(g.Type().(*types.Pointer).Elem())
				ex.globals[g] = cell
			}
		}
	}
	if skipInitPkg(pkg.Pkg.Path()) {
		ex.initStdGlobals(pkg)
		return
	}
	if init := pkg.Func("init"); init != nil && init.Blocks != nil {
		ex.callFn(nil, init, nil, nil)
	}
	// packages imported for their side effects only (`import _ "..."`) are never reached by a call: run their
	// initialisers together with the importer's
	for _, path := range sideEffectImports[pkg.Pkg.Path()] {
		dep := ex.prog.ImportedPackage(path)
		if os.Getenv("GOSYM_TRACE") != "" {
			fmt.Fprintf(os.Stderr, "side-effect import %s of %s: found=%v\n", path, pkg.Pkg.Path(), dep != nil)
		}
		if dep != nil {
			dep.Build()
			ex.ensureInit(dep)
		}
	}
}

var sideEffectImports = map[string][]string{
	"github.com/ryogrid/SamehadaDB/lib/parser": {"github.com/pingcap/tidb/types/parser_driver"},
}

func (ex *Exec) global(g *ssa.Global) *Value {
	ex.ensureInit(g.Pkg)
	if c, ok := ex.globals[g]; ok {
		return c
	}
	cell := new(Value)
	*cell = ex.zero(g.Type().(*types.Pointer).Elem())
	ex.globals[g] = cell
	return cell
}

// ---------- calling ----------

func (ex *Exec) lookupMethod(t types.Type, m *types.Func) *ssa.Function {
	fn := ex.prog.LookupMethod(t, m.Pkg(), m.Name())
	return fn
}

func (ex *Exec) callValue(fr *frame, fv Value, args []Value, site ssa.Instruction) Value {
	switch f := fv.(type) {
	case *ssa.Function:
		if f == nil {
			ex.goPanic("call of nil function")
		}
		return ex.callFn(fr, f, args, nil)
	case *Closure:
		return ex.callFn(fr, f.fn, args, f.env)
	case *ssa.Builtin:
		return ex.callBuiltin(fr, f, args, site)
	case NativeFn:
		return f(ex, fr, args)
	case nil:
		ex.goPanic("call of nil function")
	}
	ex.unsupported(fmt.Sprintf("call of %T", fv))
	return nil
}

func (ex *Exec) callFn(caller *frame, fn *ssa.Function, args []Value, env []Value) Value {
	name := fn.String()
	if fn.Origin() != nil {
		name = fn.Origin().String()
	}
	if in, ok := ex.intr[name]; ok {
		ex.stubHits[name]++
		return in(ex, caller, fn, args)
	}
	if fn.Pkg != nil && fn.Name() == "init" && fn.Synthetic != "" && caller != nil && caller.fn.Name() == "init" {
		// nested package initialisers are run lazily on first use
		return nil
	}
	if fn.Blocks == nil {
		if strings.HasPrefix(name, "init#") || fn.Name() == "init" {
			return nil
		}
		ex.unsupported("external function " + name)
	}
	if ex.local == nil && ex.mergeFns[name] && env == nil {
		return ex.mergeCall(caller, fn, args)
	}
	return ex.callFnBody(caller, fn, args, env)
}

func (ex *Exec) callFnBody(caller *frame, fn *ssa.Function, args []Value, env []Value) Value {
	name := fn.String()
	if fn.Pkg != nil {
		ex.ensureInit(fn.Pkg)
	} else if fn.Origin() != nil && fn.Origin().Pkg != nil {
		ex.ensureInit(fn.Origin().Pkg)
	}
	depth := 0
	if caller != nil {
		depth = caller.depth + 1
	}
	if depth > 400 {
		ex.end(OutIncomplete, "call depth > 400 in "+name)
	}
	fr := &frame{fn: fn, env: make(map[ssa.Value]Value, 16), caller: caller, depth: depth}
	for i, p := range fn.Params {
		fr.env[p] = args[i]
	}
	for i, fv := range fn.FreeVars {
		fr.env[fv] = env[i]
	}
	saved := ex.curFrame
	ex.curFrame = fr
	defer func() { ex.curFrame = saved }()
	ex.runFrame(fr)
	return fr.result
}

// runFrame executes the function body, handling interpreted panics and defers.
func (ex *Exec) runFrame(fr *frame) {
	fr.block = fr.fn.Blocks[0]
	for {
		if fr.block == nil {
			return
		}
		done := ex.runBlocksProtected(fr)
		if done {
			return
		}
	}
}

// runBlocksProtected runs until return; if an interpreted panic occurs it runs the deferred calls;
// returns true when the frame is finished.
func (ex *Exec) runBlocksProtected(fr *frame) (finished bool) {
	defer func() {
		if r := recover(); r != nil {
			gp, ok := r.(*goPanicT)
			if !ok {
				panic(r)
			}
			if len(fr.defers) == 0 && fr.fn.Recover == nil {
				panic(gp)
			}
			fr.panicking = gp
			ex.curFrame = fr
			ex.runDefers(fr)
			if fr.panicking != nil {
				panic(fr.panicking)
			}
			// recovered: continue at the Recover block (or return zero results)
			if fr.fn.Recover != nil {
				fr.prev = fr.block
				fr.block = fr.fn.Recover
				finished = false
				return
			}
			// no recover block: function returns zero values of results
			res := fr.fn.Signature.Results()
			switch res.Len() {
			case 0:
				fr.result = nil
			case 1:
				fr.result = ex.zero(res.At(0).Type())
			default:
				fr.result = ex.zero(res)
			}
			fr.block = nil
			finished = true
		}
	}()
	for fr.block != nil {
		ex.runBlock(fr)
	}
	return true
}

func (ex *Exec) runDefers(fr *frame) {
	for len(fr.defers) > 0 {
		d := fr.defers[len(fr.defers)-1]
		fr.defers = fr.defers[:len(fr.defers)-1]
		func() {
			defer func() {
				if r := recover(); r != nil {
					gp, ok := r.(*goPanicT)
					if !ok {
						panic(r)
					}
					fr.panicking = gp // a new panic replaces the old one
				}
			}()
			ex.callValue(fr, d.fn, d.args, d.site)
		}()
	}
}

func (ex *Exec) runBlock(fr *frame) {
	b := fr.block
	fi := ex.funcInstr
	fname := fr.fn.String()
	for _, instr := range b.Instrs {
		ex.steps++
		if ex.steps > ex.cfg.MaxSteps {
			ex.end(OutNonTerm, fmt.Sprintf("step budget %d exhausted in %s", ex.cfg.MaxSteps, fname))
		}
		fi[fname]++
		switch in := instr.(type) {
		case *ssa.Jump:
			fr.prev = b
			fr.block = b.Succs[0]
			return
		case *ssa.If:
			c := ex.get(fr, in.Cond).(*Term)
			fr.prev = b
			if ex.branch(c) {
				fr.block = b.Succs[0]
			} else {
				fr.block = b.Succs[1]
			}
			return
		case *ssa.Return:
			switch len(in.Results) {
			case 0:
				fr.result = nil
			case 1:
				fr.result = ex.get(fr, in.Results[0])
			default:
				t := make(Tuple, len(in.Results))
				for i, r := range in.Results {
					t[i] = ex.get(fr, r)
				}
				fr.result = t
			}
			fr.block = nil
			return
		case *ssa.Panic:
			v := ex.get(fr, in.X)
			panic(&goPanicT{val: v, msg: ex.describe(v)})
		default:
			ex.visit(fr, instr)
		}
	}
	panic("block without terminator")
}

func (ex *Exec) describe(v Value) string {
	switch x := v.(type) {
	case Iface:
		if x.t == nil {
			return "nil"
		}
		return ex.describe(x.v)
	case Str:
		if x.IsConc() {
			return x.s
		}
		return "<symbolic string>"
	case *Term:
		return x.String()
	case *Value:
		if x != nil {
			if s, ok := (*x).(Struct); ok && len(s) == 1 {
				return ex.describe(s[0])
			}
		}
	}
	return fmt.Sprintf("%T", v)
}

func (ex *Exec) get(fr *frame, v ssa.Value) Value {
	switch x := v.(type) {
	case *ssa.Const:
		return ex.constVal(x)
	case *ssa.Global:
		return ex.global(x)
	case *ssa.Function:
		return x
	case *ssa.Builtin:
		return x
	case nil:
		return nil
	}
	if r, ok := fr.env[v]; ok {
		return r
	}
	panic(fmt.Sprintf("get: no value for %T %v in %s", v, v.Name(), fr.fn))
}

func (ex *Exec) constVal(c *ssa.Const) Value {
	t := c.Type()
	if c.Value == nil {
		if _, ok := t.(*types.TypeParam); ok {
			ex.unsupported("const of type param")
		}
		return ex.zero(t)
	}
	switch u := t.Underlying().(type) {
	case *types.Basic:
		switch {
		case u.Info()&types.IsBoolean != 0:
			return ex.tc.Bool(constant.BoolVal(c.Value))
		case u.Info()&types.IsString != 0:
			if c.Value.Kind() == constant.String {
				return Str{s: constant.StringVal(c.Value)}
			}
			// rune/int constant converted to string
			return Str{s: string(rune(c.Int64()))}
		case u.Info()&types.IsInteger != 0:
			w := basicWidth(u)
			if u.Info()&types.IsUnsigned != 0 {
				return ex.tc.BV(w, c.Uint64())
			}
			return ex.tc.BV(w, uint64(c.Int64()))
		case u.Info()&types.IsFloat != 0:
			f := c.Float64()
			if basicWidth(u) == 32 {
				return ex.tc.BV(32, uint64(math.Float32bits(float32(f))))
			}
			return ex.tc.BV(64, math.Float64bits(f))
		}
	}
	ex.unsupported(fmt.Sprintf("constant of type %v", t))
	return nil
}

// ---------- instruction visitor ----------

func (ex *Exec) visit(fr *frame, instr ssa.Instruction) {
	switch in := instr.(type) {
	case *ssa.DebugRef:
	case *ssa.Alloc:
		cell := new(Value)
		*cell = ex.zero(in.Type().(*types.Pointer).Elem())
		fr.env[in] = cell
	case *ssa.UnOp:
		fr.env[in] = ex.unop(fr, in)
	case *ssa.BinOp:
		fr.env[in] = ex.binop(in.Op, in.X.Type(), ex.get(fr, in.X), ex.get(fr, in.Y), in.Y.Type())
	case *ssa.Store:
		ex.store(ex.get(fr, in.Addr), ex.get(fr, in.Val))
	case *ssa.Call:
		fn, args := ex.prepareCall(fr, &in.Call)
		fr.env[in] = ex.callValue(fr, fn, args, in)
		ex.curFrame = fr
	case *ssa.Defer:
		fn, args := ex.prepareCall(fr, &in.Call)
		fr.defers = append(fr.defers, &deferred{fn: fn, args: args, site: in})
	case *ssa.Go:
		fn, args := ex.prepareCall(fr, &in.Call)
		if ex.schedAllowed(fnName(fn)) {
			ex.spawn(fn, args)
			ex.stubHits["go statement (scheduled)"]++
			ex.yield(nil)
			ex.curFrame = fr
		} else {
			ex.goroutines++
			ex.stubHits["go statement (not run)"]++
		}
	case *ssa.RunDefers:
		ex.runDefers(fr)
		if fr.panicking != nil {
			p := fr.panicking
			fr.panicking = nil
			panic(p)
		}
	case *ssa.FieldAddr:
		fr.env[in] = ex.fieldAddr(ex.get(fr, in.X), in.Field, in)
	case *ssa.Field:
		s := ex.get(fr, in.X).(Struct)
		fr.env[in] = ex.copyVal(s[in.Field])
	case *ssa.IndexAddr:
		fr.env[in] = ex.indexAddr(ex.get(fr, in.X), ex.get(fr, in.Index).(*Term), in.X.Type(), in.Index.Type())
	case *ssa.Index:
		fr.env[in] = ex.index(ex.get(fr, in.X), ex.get(fr, in.Index).(*Term), in.Index.Type())
	case *ssa.Slice:
		fr.env[in] = ex.sliceOp(fr, in)
	case *ssa.MakeSlice:
		fr.env[in] = ex.makeSlice(in.Type(), ex.get(fr, in.Len).(*Term), ex.get(fr, in.Cap).(*Term), in.Len.Type())
	case *ssa.MakeMap:
		fr.env[in] = ex.newMap(in.Type().Underlying().(*types.Map).Key())
	case *ssa.MakeChan:
		sz := ex.get(fr, in.Size).(*Term)
		ex.chanSeq++
		fr.env[in] = &ChanObj{cap: int(ex.concretize(sz, "chan size")), id: ex.chanSeq}
	case *ssa.MapUpdate:
		m, _ := ex.get(fr, in.Map).(*MapObj)
		ex.mapSet(m, ex.get(fr, in.Key), ex.copyVal(ex.get(fr, in.Value)))
	case *ssa.Lookup:
		fr.env[in] = ex.lookup(fr, in)
	case *ssa.Range:
		fr.env[in] = ex.rangeIter(ex.get(fr, in.X))
	case *ssa.Next:
		fr.env[in] = ex.next(ex.get(fr, in.Iter), in)
	case *ssa.MakeInterface:
		fr.env[in] = Iface{t: in.X.Type(), v: ex.get(fr, in.X)}
	case *ssa.ChangeInterface:
		fr.env[in] = ex.get(fr, in.X)
	case *ssa.ChangeType:
		fr.env[in] = ex.get(fr, in.X)
	case *ssa.Convert:
		fr.env[in] = ex.convert(in.X.Type(), in.Type(), ex.get(fr, in.X))
	case *ssa.MultiConvert:
		fr.env[in] = ex.convert(in.X.Type(), in.Type(), ex.get(fr, in.X))
	case *ssa.SliceToArrayPointer:
		fr.env[in] = ex.sliceToArrayPtr(ex.get(fr, in.X), in.Type())
	case *ssa.TypeAssert:
		fr.env[in] = ex.typeAssert(in, ex.get(fr, in.X).(Iface))
	case *ssa.Extract:
		fr.env[in] = ex.get(fr, in.Tuple).(Tuple)[in.Index]
	case *ssa.Phi:
		for i, pred := range in.Block().Preds {
			if pred == fr.prev {
				fr.env[in] = ex.get(fr, in.Edges[i])
				return
			}
		}
		panic("phi: no matching pred")
	case *ssa.MakeClosure:
		cl := &Closure{fn: in.Fn.(*ssa.Function)}
		for _, b := range in.Bindings {
			cl.env = append(cl.env, ex.get(fr, b))
		}
		fr.env[in] = cl
	case *ssa.Send:
		ex.chanSend(ex.get(fr, in.Chan).(*ChanObj), ex.get(fr, in.X))
	case *ssa.Select:
		ex.unsupported("select statement")
	default:
		ex.unsupported(fmt.Sprintf("instruction %T", instr))
	}
}

func (ex *Exec) prepareCall(fr *frame, call *ssa.CallCommon) (Value, []Value) {
	var args []Value
	var fn Value
	if call.Method != nil {
		recv := ex.get(fr, call.Value).(Iface)
		if recv.t == nil {
			ex.goPanic("nil interface method call: " + call.Method.Name())
		}
		if no, ok := recv.v.(nativeObj); ok {
			fn = no.method(call.Method.Name())
			args = append(args, recv.v)
			for _, a := range call.Args {
				args = append(args, ex.copyVal(ex.get(fr, a)))
			}
			return fn, args
		}
		f := ex.lookupMethod(recv.t, call.Method)
		if f == nil {
			ex.unsupported(fmt.Sprintf("method %s not found on %s", call.Method.Name(), recv.t))
		}
		fn = f
		args = append(args, recv.v)
	} else {
		fn = ex.get(fr, call.Value)
	}
	for _, a := range call.Args {
		args = append(args, ex.copyVal(ex.get(fr, a)))
	}
	return fn, args
}

func (ex *Exec) fieldAddr(p Value, field int, in *ssa.FieldAddr) Value {
	switch x := p.(type) {
	case *Value:
		if x == nil {
			ex.goPanic("nil pointer dereference (field " + in.X.Type().String() + ")")
		}
		s, ok := (*x).(Struct)
		if !ok {
			ex.unsupported(fmt.Sprintf("fieldAddr on cell holding %T", *x))
		}
		return &s[field]
	case ViewPtr:
		if field == 0 {
			return x.inner
		}
		ex.unsupported("ViewPtr field != 0")
	case UnsafePtr:
		return ex.fieldAddr(x.v, field, in)
	}
	ex.unsupported(fmt.Sprintf("fieldAddr on %T", p))
	return nil
}

func (ex *Exec) toInt64(t *Term, typ types.Type) *Term {
	if int(t.sort) == 64 {
		return t
	}
	if isSigned(typ) {
		return ex.tc.SExt(64, t)
	}
	return ex.tc.ZExt(64, t)
}

func (ex *Exec) boundsCheck(idx, n *Term, what string) {
	ok := ex.tc.Cmp(OULT, idx, n) // unsigned compare also rejects negatives
	if !ex.branch(ok) {
		ex.goPanic("index out of range (" + what + ")")
	}
}

func (ex *Exec) indexAddr(x Value, idx *Term, xt types.Type, it types.Type) Value {
	i := ex.toInt64(idx, it)
	switch a := x.(type) {
	case Slice:
		ex.boundsCheck(i, ex.tc.BV(64, uint64(a.len)), "slice")
		k := ex.concIdx(i, a.len)
		return &a.arr.elems[a.off+k]
	case ByteSlice:
		ex.boundsCheck(i, a.len, "[]byte")
		return BytePtr{a.arr, ex.tc.Bin(OAdd, a.off, i)}
	case *Value:
		if a == nil {
			ex.goPanic("nil pointer dereference (index)")
		}
		switch arr := (*a).(type) {
		case *ArrObj:
			ex.boundsCheck(i, ex.tc.BV(64, uint64(len(arr.elems))), "array")
			k := ex.concIdx(i, len(arr.elems))
			return &arr.elems[k]
		case *ByteArr:
			ex.boundsCheck(i, arr.size, "byte array")
			return BytePtr{arr, i}
		}
	case ByteArrPtr:
		ex.boundsCheck(i, ex.tc.BV(64, uint64(a.n)), "byte array ptr")
		return BytePtr{a.arr, ex.tc.Bin(OAdd, a.off, i)}
	case UnsafePtr:
		return ex.indexAddr(a.v, idx, xt, it)
	}
	ex.unsupported(fmt.Sprintf("indexAddr on %T", x))
	return nil
}

func (ex *Exec) index(x Value, idx *Term, it types.Type) Value {
	i := ex.toInt64(idx, it)
	switch a := x.(type) {
	case *ArrObj:
		ex.boundsCheck(i, ex.tc.BV(64, uint64(len(a.elems))), "array")
		return ex.copyVal(a.elems[ex.concIdx(i, len(a.elems))])
	case *ByteArr:
		ex.boundsCheck(i, a.size, "byte array")
		return a.Read(i)
	case Str:
		ex.boundsCheck(i, ex.tc.BV(64, uint64(a.Len())), "string")
		k := ex.concIdx(i, a.Len())
		if a.sym != nil {
			return a.sym[k]
		}
		return ex.tc.BV(8, uint64(a.s[k]))
	}
	ex.unsupported(fmt.Sprintf("index on %T", x))
	return nil
}

func (ex *Exec) sliceOp(fr *frame, in *ssa.Slice) Value {
	x := ex.get(fr, in.X)
	var lo, hi, max *Term
	if in.Low != nil {
		lo = ex.toInt64(ex.get(fr, in.Low).(*Term), in.Low.Type())
	}
	if in.High != nil {
		hi = ex.toInt64(ex.get(fr, in.High).(*Term), in.High.Type())
	}
	if in.Max != nil {
		max = ex.toInt64(ex.get(fr, in.Max).(*Term), in.Max.Type())
	}
	tc := ex.tc
	zero := tc.BV(64, 0)
	if lo == nil {
		lo = zero
	}
	chk := func(c *Term) {
		if !ex.branch(c) {
			ex.goPanic("slice bounds out of range")
		}
	}
	switch a := x.(type) {
	case Str:
		n := tc.BV(64, uint64(a.Len()))
		if hi == nil {
			hi = n
		}
		chk(tc.And(tc.Cmp(OULE, hi, n), tc.Cmp(OULE, lo, hi)))
		l := int(ex.concretize(lo, "string slice low"))
		h := int(ex.concretize(hi, "string slice high"))
		if a.sym != nil {
			return ex.mkStr(a.sym[l:h])
		}
		return Str{s: a.s[l:h]}
	case ByteSlice:
		return ex.sliceBytes(a.arr, a.off, a.len, a.cap, lo, hi, max)
	case Slice:
		if hi == nil {
			hi = tc.BV(64, uint64(a.len))
		}
		if max == nil {
			max = tc.BV(64, uint64(a.cap))
		}
		chk(tc.And(tc.Cmp(OULE, max, tc.BV(64, uint64(a.cap))), tc.And(tc.Cmp(OULE, hi, max), tc.Cmp(OULE, lo, hi))))
		l := int(ex.concretize(lo, "slice low"))
		h := int(ex.concretize(hi, "slice high"))
		m := int(ex.concretize(max, "slice max"))
		if a.arr == nil {
			return Slice{}
		}
		return Slice{arr: a.arr, off: a.off + l, len: h - l, cap: m - l}
	case *Value:
		if a == nil {
			ex.goPanic("nil pointer dereference (slice of array)")
		}
		switch arr := (*a).(type) {
		case *ByteArr:
			return ex.sliceBytes(arr, zero, arr.size, arr.size, lo, hi, max)
		case *ArrObj:
			n := len(arr.elems)
			return ex.sliceGeneric(Slice{arr: arr, off: 0, len: n, cap: n}, lo, hi, max)
		}
	case ByteArrPtr:
		n := tc.BV(64, uint64(a.n))
		return ex.sliceBytes(a.arr, a.off, n, n, lo, hi, max)
	}
	ex.unsupported(fmt.Sprintf("slice of %T", x))
	return nil
}

func (ex *Exec) sliceGeneric(a Slice, lo, hi, max *Term) Value {
	tc := ex.tc
	if hi == nil {
		hi = tc.BV(64, uint64(a.len))
	}
	if max == nil {
		max = tc.BV(64, uint64(a.cap))
	}
	c := tc.And(tc.Cmp(OULE, max, tc.BV(64, uint64(a.cap))), tc.And(tc.Cmp(OULE, hi, max), tc.Cmp(OULE, lo, hi)))
	if !ex.branch(c) {
		ex.goPanic("slice bounds out of range")
	}
	l := int(ex.concretize(lo, "slice low"))
	h := int(ex.concretize(hi, "slice high"))
	m := int(ex.concretize(max, "slice max"))
	return Slice{arr: a.arr, off: a.off + l, len: h - l, cap: m - l}
}

func (ex *Exec) sliceBytes(arr *ByteArr, off, ln, cp, lo, hi, max *Term) Value {
	tc := ex.tc
	if hi == nil {
		hi = ln
	}
	if max == nil {
		max = cp
	}
	c := tc.And(tc.Cmp(OULE, max, cp), tc.And(tc.Cmp(OULE, hi, max), tc.Cmp(OULE, lo, hi)))
	if !ex.branch(c) {
		ex.goPanic(fmt.Sprintf("slice bounds out of range [%v:%v:%v] with capacity %v", lo, hi, max, cp))
	}
	if arr == nil {
		z := tc.BV(64, 0)
		return ByteSlice{nil, z, z, z}
	}
	return ByteSlice{arr: arr, off: tc.Bin(OAdd, off, lo), len: tc.Bin(OSub, hi, lo), cap: tc.Bin(OSub, max, lo)}
}

func (ex *Exec) makeSlice(t types.Type, ln, cp *Term, lt types.Type) Value {
	ln = ex.toInt64(ln, lt)
	cp = ex.toInt64(cp, lt)
	el := t.Underlying().(*types.Slice).Elem()
	tc := ex.tc
	// len must be 0 <= len <= cap, and not absurdly large
	okc := tc.And(tc.Cmp(OSLE, tc.BV(64, 0), ln), tc.Cmp(OSLE, ln, cp))
	if !ex.branch(okc) {
		ex.goPanic("makeslice: len out of range")
	}
	if isByteType(el) {
		big := tc.Cmp(OULE, cp, tc.BV(64, 1<<31))
		if !ex.branch(big) {
			ex.goPanic("makeslice: len out of range (huge)")
		}
		arr := ex.newByteArrZero(cp)
		return ByteSlice{arr: arr, off: tc.BV(64, 0), len: ln, cap: cp}
	}
	l := int(ex.concretize(ln, "make len"))
	c := int(ex.concretize(cp, "make cap"))
	if c > 1<<22 {
		ex.end(OutIncomplete, "make: slice too large for the engine")
	}
	arr := &ArrObj{elems: make([]Value, c)}
	for i := range arr.elems {
		arr.elems[i] = ex.zero(el)
	}
	return Slice{arr: arr, off: 0, len: l, cap: c}
}

func (ex *Exec) sliceToArrayPtr(x Value, t types.Type) Value {
	at := t.(*types.Pointer).Elem().Underlying().(*types.Array)
	n := int(at.Len())
	switch s := x.(type) {
	case ByteSlice:
		if !ex.branch(ex.tc.Cmp(OULE, ex.tc.BV(64, uint64(n)), s.len)) {
			ex.goPanic("slice to array pointer: length too short")
		}
		if s.arr == nil {
			return (*Value)(nil)
		}
		return ByteArrPtr{s.arr, s.off, n}
	}
	ex.unsupported(fmt.Sprintf("SliceToArrayPointer on %T", x))
	return nil
}

func (ex *Exec) lookup(fr *frame, in *ssa.Lookup) Value {
	x := ex.get(fr, in.X)
	if s, ok := x.(Str); ok {
		return ex.index(s, ex.get(fr, in.Index).(*Term), in.Index.Type())
	}
	m, _ := x.(*MapObj)
	key := ex.get(fr, in.Index)
	vt := in.X.Type().Underlying().(*types.Map).Elem()
	i := ex.mapFind(m, key)
	var v Value
	if i >= 0 {
		v = ex.copyVal(m.vals[i])
	} else {
		v = ex.zero(vt)
	}
	if in.CommaOk {
		return Tuple{v, ex.tc.Bool(i >= 0)}
	}
	return v
}

func (ex *Exec) rangeIter(x Value) Value {
	switch a := x.(type) {
	case *MapObj:
		it := &MapIter{m: a}
		if a != nil {
			for i := range a.keys {
				if a.live[i] {
					it.order = append(it.order, i)
				}
			}
			// Go randomises map iteration order: explore rotations/permutations of small maps
			n := len(it.order)
			if n >= 2 && ex.cfgMapOrders() {
				if n <= 3 {
					perms := permutations(n)
					k := ex.choose(len(perms))
					o := make([]int, n)
					for i, p := range perms[k] {
						o[i] = it.order[p]
					}
					it.order = o
				} else {
					k := ex.choose(n)
					it.order = append(it.order[k:], it.order[:k]...)
				}
			}
		}
		return it
	case Str:
		return &StrIter{s: a}
	}
	ex.unsupported(fmt.Sprintf("range over %T", x))
	return nil
}

func permutations(n int) [][]int {
	var res [][]int
	var rec func(cur []int, used []bool)
	rec = func(cur []int, used []bool) {
		if len(cur) == n {
			res = append(res, append([]int{}, cur...))
			return
		}
		for i := 0; i < n; i++ {
			if !used[i] {
				used[i] = true
				rec(append(cur, i), used)
				used[i] = false
			}
		}
	}
	rec(nil, make([]bool, n))
	return res
}

func (ex *Exec) next(it Value, in *ssa.Next) Value {
	switch a := it.(type) {
	case *MapIter:
		mt := in.Iter.(*ssa.Range).X.Type().Underlying().(*types.Map)
		for a.pos < len(a.order) {
			i := a.order[a.pos]
			a.pos++
			if a.m.live[i] {
				return Tuple{ex.tc.Bool(true), a.m.keys[i], ex.copyVal(a.m.vals[i])}
			}
		}
		return Tuple{ex.tc.Bool(false), ex.zero(mt.Key()), ex.zero(mt.Elem())}
	case *StrIter:
		if a.pos >= a.s.Len() {
			return Tuple{ex.tc.Bool(false), ex.tc.BV(64, 0), ex.tc.BV(32, 0)}
		}
		if a.s.sym != nil {
			// treat symbolic bytes as ASCII (assumed < 0x80)
			b := a.s.sym[a.pos]
			if !ex.branch(ex.tc.Cmp(OULT, b, ex.tc.BV(8, 0x80))) {
				ex.unsupported("range over string with symbolic non-ASCII byte")
			}
			p := a.pos
			a.pos++
			return Tuple{ex.tc.Bool(true), ex.tc.BV(64, uint64(p)), ex.tc.ZExt(32, b)}
		}
		p := a.pos
		for i, r := range a.s.s[p:] {
			_ = i
			sz := len(string(r))
			if r == 0xFFFD {
				sz = 1
			}
			a.pos += sz
			return Tuple{ex.tc.Bool(true), ex.tc.BV(64, uint64(p)), ex.tc.BV(32, uint64(r))}
		}
	}
	ex.unsupported(fmt.Sprintf("next on %T", it))
	return nil
}

func (ex *Exec) typeAssert(in *ssa.TypeAssert, x Iface) Value {
	var ok bool
	var v Value
	if it, isIf := in.AssertedType.Underlying().(*types.Interface); isIf {
		if x.t != nil {
			ok = types.Implements(x.t, it) || implementsViaPtr(x.t, it)
		}
		v = x
	} else {
		ok = x.t != nil && types.Identical(x.t, in.AssertedType)
		if ok {
			v = ex.copyVal(x.v)
		}
	}
	if in.CommaOk {
		if !ok {
			if _, isIf := in.AssertedType.Underlying().(*types.Interface); isIf {
				v = Iface{}
			} else {
				v = ex.zero(in.AssertedType)
			}
		}
		return Tuple{v, ex.tc.Bool(ok)}
	}
	if !ok {
		ex.goPanic(fmt.Sprintf("interface conversion: %s is not %s", typeName(x.t), in.AssertedType))
	}
	return v
}

func implementsViaPtr(t types.Type, it *types.Interface) bool {
	return false
}

func (ex *Exec) unop(fr *frame, in *ssa.UnOp) Value {
	x := ex.get(fr, in.X)
	switch in.Op {
	case token.MUL:
		return ex.load(x, in.Type())
	case token.NOT:
		return ex.tc.Not(x.(*Term))
	case token.SUB:
		t := x.(*Term)
		if isFloat(in.X.Type()) {
			return ex.tc.FPNeg(t)
		}
		return ex.tc.Neg(t)
	case token.XOR:
		return ex.tc.BNot(x.(*Term))
	case token.ARROW:
		v, ok := ex.chanRecv(x.(*ChanObj), in.X.Type().Underlying().(*types.Chan).Elem())
		if in.CommaOk {
			return Tuple{v, ex.tc.Bool(ok)}
		}
		return v
	}
	ex.unsupported("unop " + in.Op.String())
	return nil
}

func (ex *Exec) strCmp(op token.Token, a, b Str) *Term {
	tc := ex.tc
	if a.IsConc() && b.IsConc() {
		switch op {
		case token.EQL:
			return tc.Bool(a.s == b.s)
		case token.NEQ:
			return tc.Bool(a.s != b.s)
		case token.LSS:
			return tc.Bool(a.s < b.s)
		case token.LEQ:
			return tc.Bool(a.s <= b.s)
		case token.GTR:
			return tc.Bool(a.s > b.s)
		case token.GEQ:
			return tc.Bool(a.s >= b.s)
		}
	}
	ab, bb := ex.strBytes(a), ex.strBytes(b)
	switch op {
	case token.EQL, token.NEQ:
		var r *Term
		if len(ab) != len(bb) {
			r = tc.Bool(false)
		} else {
			r = tc.Bool(true)
			for i := range ab {
				r = tc.And(r, tc.Eq(ab[i], bb[i]))
			}
		}
		if op == token.NEQ {
			return tc.Not(r)
		}
		return r
	case token.LSS:
		return ex.bytesLess(ab, bb, false)
	case token.LEQ:
		return ex.bytesLess(ab, bb, true)
	case token.GTR:
		return ex.bytesLess(bb, ab, false)
	case token.GEQ:
		return ex.bytesLess(bb, ab, true)
	}
	panic("strCmp")
}

// lexicographic a < b (or <= when orEq)
func (ex *Exec) bytesLess(a, b []*Term, orEq bool) *Term {
	tc := ex.tc
	n := len(a)
	if len(b) < n {
		n = len(b)
	}
	var r *Term
	if orEq {
		r = tc.Bool(len(a) <= len(b))
	} else {
		r = tc.Bool(len(a) < len(b))
	}
	for i := n - 1; i >= 0; i-- {
		r = tc.Ite(tc.Cmp(OULT, a[i], b[i]), tc.Bool(true), tc.Ite(tc.Cmp(OULT, b[i], a[i]), tc.Bool(false), r))
	}
	return r
}

func (ex *Exec) equalVals(a, b Value) *Term {
	tc := ex.tc
	switch x := a.(type) {
	case *Term:
		y, ok := b.(*Term)
		if !ok {
			return tc.Bool(false)
		}
		if x.sort != y.sort {
			return tc.Bool(false)
		}
		return tc.Eq(x, y)
	case Str:
		y, ok := b.(Str)
		if !ok {
			return tc.Bool(false)
		}
		return ex.strCmp(token.EQL, x, y)
	case Struct:
		y := b.(Struct)
		r := tc.Bool(true)
		for i := range x {
			r = tc.And(r, ex.equalVals(x[i], y[i]))
		}
		return r
	case *ArrObj:
		y := b.(*ArrObj)
		r := tc.Bool(true)
		for i := range x.elems {
			r = tc.And(r, ex.equalVals(x.elems[i], y.elems[i]))
		}
		return r
	case *ByteArr:
		y := b.(*ByteArr)
		n := int(ex.concretize(x.size, "array compare size"))
		r := tc.Bool(true)
		for i := 0; i < n; i++ {
			ix := tc.BV(64, uint64(i))
			r = tc.And(r, tc.Eq(x.Read(ix), y.Read(ix)))
		}
		return r
	case Iface:
		y, ok := b.(Iface)
		if !ok {
			return tc.Bool(false)
		}
		if x.t == nil || y.t == nil {
			return tc.Bool(x.t == nil && y.t == nil)
		}
		if !types.Identical(x.t, y.t) {
			return tc.Bool(false)
		}
		return ex.equalVals(x.v, y.v)
	case *Value:
		if isNilPtr(b) {
			return tc.Bool(x == nil)
		}
		switch y := b.(type) {
		case *Value:
			return tc.Bool(x == y)
		case UnsafePtr:
			return ex.equalVals(a, y.v)
		}
		return tc.Bool(false)
	case ViewPtr:
		if isNilPtr(b) {
			return tc.Bool(isNilPtr(x.inner))
		}
		if y, ok := b.(ViewPtr); ok {
			return ex.equalVals(x.inner, y.inner)
		}
		return tc.Bool(false)
	case UnsafePtr:
		if y, ok := b.(UnsafePtr); ok {
			return ex.equalVals(x.v, y.v)
		}
		return ex.equalVals(x.v, b)
	case BytePtr:
		if y, ok := b.(BytePtr); ok {
			if x.arr != y.arr {
				return tc.Bool(false)
			}
			return tc.Eq(x.idx, y.idx)
		}
		return tc.Bool(isNilPtr(b) && x.arr == nil)
	case ByteArrPtr:
		if y, ok := b.(ByteArrPtr); ok {
			if x.arr != y.arr {
				return tc.Bool(false)
			}
			return tc.Eq(x.off, y.off)
		}
		return tc.Bool(isNilPtr(b) && x.arr == nil)
	case *MapObj:
		y, _ := b.(*MapObj)
		return tc.Bool(x == y)
	case *ChanObj:
		y, _ := b.(*ChanObj)
		return tc.Bool(x == y)
	case Slice:
		// only comparison with nil is legal
		return tc.Bool(x.arr == nil)
	case ByteSlice:
		return tc.Bool(x.arr == nil)
	case nil:
		switch y := b.(type) {
		case nil:
			return tc.Bool(true)
		case *ssa.Function:
			return tc.Bool(y == nil)
		case *Closure:
			return tc.Bool(y == nil)
		case Slice:
			return tc.Bool(y.arr == nil)
		case ByteSlice:
			return tc.Bool(y.arr == nil)
		case *MapObj:
			return tc.Bool(y == nil)
		case Iface:
			return tc.Bool(y.t == nil)
		}
		return tc.Bool(isNilPtr(b))
	case *ssa.Function:
		if b == nil {
			return tc.Bool(x == nil)
		}
		y, _ := b.(*ssa.Function)
		return tc.Bool(x == y)
	case *Closure:
		if b == nil {
			return tc.Bool(x == nil)
		}
		y, _ := b.(*Closure)
		return tc.Bool(x == y)
	}
	ex.unsupported(fmt.Sprintf("equality on %T", a))
	return nil
}

func (ex *Exec) binop(op token.Token, xt types.Type, xv, yv Value, yt types.Type) Value {
	tc := ex.tc
	switch op {
	case token.EQL:
		return ex.equalVals(xv, yv)
	case token.NEQ:
		return tc.Not(ex.equalVals(xv, yv))
	}
	if xs, ok := xv.(Str); ok {
		ys := yv.(Str)
		if op == token.ADD {
			if xs.IsConc() && ys.IsConc() {
				return Str{s: xs.s + ys.s}
			}
			return ex.mkStr(append(append([]*Term{}, ex.strBytes(xs)...), ex.strBytes(ys)...))
		}
		return ex.strCmp(op, xs, ys)
	}
	x, ok1 := xv.(*Term)
	y, ok2 := yv.(*Term)
	if !ok1 || !ok2 {
		ex.unsupported(fmt.Sprintf("binop %s on %T,%T", op, xv, yv))
	}
	if isFloat(xt) {
		switch op {
		case token.ADD:
			return ex.fpArith(OFPAdd, x, y)
		case token.SUB:
			return ex.fpArith(OFPSub, x, y)
		case token.MUL:
			return ex.fpArith(OFPMul, x, y)
		case token.QUO:
			return ex.fpArith(OFPDiv, x, y)
		case token.LSS:
			return tc.FPCmp(OFPLt, x, y)
		case token.LEQ:
			return tc.FPCmp(OFPLe, x, y)
		case token.GTR:
			return tc.FPCmp(OFPLt, y, x)
		case token.GEQ:
			return tc.FPCmp(OFPLe, y, x)
		}
		ex.unsupported("float binop " + op.String())
	}
	if x.sort == SBool {
		switch op {
		case token.AND, token.LAND:
			return tc.And(x, y)
		case token.OR, token.LOR:
			return tc.Or(x, y)
		}
		ex.unsupported("bool binop " + op.String())
	}
	signed := isSigned(xt)
	switch op {
	case token.ADD:
		return tc.Bin(OAdd, x, y)
	case token.SUB:
		return tc.Bin(OSub, x, y)
	case token.MUL:
		return tc.Bin(OMul, x, y)
	case token.QUO, token.REM:
		if !ex.branch(tc.Not(tc.Eq(y, tc.BV(int(y.sort), 0)))) {
			ex.goPanic("integer divide by zero")
		}
		if op == token.QUO {
			if signed {
				return tc.Bin(OSDiv, x, y)
			}
			return tc.Bin(OUDiv, x, y)
		}
		if signed {
			return tc.Bin(OSRem, x, y)
		}
		return tc.Bin(OURem, x, y)
	case token.AND:
		return tc.Bin(OBAnd, x, y)
	case token.OR:
		return tc.Bin(OBOr, x, y)
	case token.XOR:
		return tc.Bin(OBXor, x, y)
	case token.AND_NOT:
		return tc.Bin(OBAnd, x, tc.BNot(y))
	case token.SHL, token.SHR:
		w := int(x.sort)
		if isSigned(yt) {
			if !ex.branch(tc.Cmp(OSLE, tc.BV(int(y.sort), 0), y)) {
				ex.goPanic("negative shift amount")
			}
		}
		var big *Term
		var amt *Term
		if int(y.sort) > w {
			big = tc.Cmp(OULE, tc.BV(int(y.sort), uint64(w)), y)
			amt = tc.Extract(w-1, 0, y)
		} else {
			amt = tc.ZExt(w, y)
			big = tc.Cmp(OULE, tc.BV(w, uint64(w)), amt)
		}
		if op == token.SHL {
			return tc.Ite(big, tc.BV(w, 0), tc.Bin(OShl, x, amt))
		}
		if signed {
			return tc.Ite(big, tc.Bin(OAShr, x, tc.BV(w, uint64(w-1))), tc.Bin(OAShr, x, amt))
		}
		return tc.Ite(big, tc.BV(w, 0), tc.Bin(OLShr, x, amt))
	case token.LSS:
		if signed {
			return tc.Cmp(OSLT, x, y)
		}
		return tc.Cmp(OULT, x, y)
	case token.LEQ:
		if signed {
			return tc.Cmp(OSLE, x, y)
		}
		return tc.Cmp(OULE, x, y)
	case token.GTR:
		if signed {
			return tc.Cmp(OSLT, y, x)
		}
		return tc.Cmp(OULT, y, x)
	case token.GEQ:
		if signed {
			return tc.Cmp(OSLE, y, x)
		}
		return tc.Cmp(OULE, y, x)
	}
	ex.unsupported("binop " + op.String())
	return nil
}

func (ex *Exec) fpArith(op Op, x, y *Term) *Term {
	if x.IsConst() && y.IsConst() {
		return ex.tc.FPBin(op, x, y)
	}
	if ex.cfgHavocFloat() {
		ex.havocs++
		return ex.fresh(fmt.Sprintf("havocf%d", int(x.sort)), x.sort)
	}
	return ex.tc.FPBin(op, x, y)
}

func (ex *Exec) convert(from, to types.Type, v Value) Value {
	tc := ex.tc
	fu, tu := from.Underlying(), to.Underlying()
	// unsafe.Pointer
	if fb, ok := fu.(*types.Basic); ok && fb.Kind() == types.UnsafePointer {
		up, _ := v.(UnsafePtr)
		if _, ok := tu.(*types.Pointer); ok {
			return ex.fromUnsafe(up, to)
		}
		if tb, ok := tu.(*types.Basic); ok && tb.Kind() == types.UnsafePointer {
			return v
		}
		ex.unsupported("convert unsafe.Pointer to " + to.String())
	}
	if tb, ok := tu.(*types.Basic); ok && tb.Kind() == types.UnsafePointer {
		if _, ok := fu.(*types.Pointer); ok {
			return UnsafePtr{v: v, t: from}
		}
		ex.unsupported("convert " + from.String() + " to unsafe.Pointer")
	}
	switch t := tu.(type) {
	case *types.Basic:
		switch {
		case t.Info()&types.IsString != 0:
			switch x := v.(type) {
			case Str:
				return x
			case ByteSlice:
				n := int(ex.concretize(x.len, "string([]byte) length"))
				bs := make([]*Term, n)
				for i := 0; i < n; i++ {
					bs[i] = x.arr.Read(tc.Bin(OAdd, x.off, tc.BV(64, uint64(i))))
				}
				return ex.mkStr(bs)
			case *Term:
				r := rune(ex.concretize(x, "string(rune)"))
				return Str{s: string(r)}
			case Slice: // []rune
				var sb strings.Builder
				for i := 0; i < x.len; i++ {
					r := x.arr.elems[x.off+i].(*Term)
					sb.WriteRune(rune(ex.concretize(r, "string([]rune)")))
				}
				return Str{s: sb.String()}
			}
		case t.Info()&types.IsInteger != 0:
			x := v.(*Term)
			w := basicWidth(t)
			if isFloat(from) {
				return tc.FPToInt(isSigned(to), w, x)
			}
			if isSigned(from) {
				return tc.SExt(w, x)
			}
			return tc.ZExt(w, x)
		case t.Info()&types.IsFloat != 0:
			x := v.(*Term)
			w := basicWidth(t)
			if isFloat(from) {
				return tc.FPConv(w, x)
			}
			return tc.IntToFP(isSigned(from), w, x)
		case t.Info()&types.IsBoolean != 0:
			return v
		}
	case *types.Slice:
		if s, ok := v.(Str); ok {
			if isByteType(t.Elem()) {
				bs := ex.strBytes(s)
				arr := ex.newByteArrZero(tc.BV(64, uint64(len(bs))))
				for i, b := range bs {
					arr.Write(tc.BV(64, uint64(i)), b)
				}
				n := tc.BV(64, uint64(len(bs)))
				return ByteSlice{arr, tc.BV(64, 0), n, n}
			}
			if s.IsConc() {
				rs := []rune(s.s)
				arr := &ArrObj{elems: make([]Value, len(rs))}
				for i, r := range rs {
					arr.elems[i] = tc.BV(32, uint64(r))
				}
				return Slice{arr, 0, len(rs), len(rs)}
			}
		}
		return v
	case *types.Pointer, *types.Struct, *types.Array, *types.Map, *types.Signature, *types.Interface, *types.Chan:
		return v
	}
	ex.unsupported(fmt.Sprintf("convert %s -> %s (%T)", from, to, v))
	return nil
}

func (ex *Exec) fromUnsafe(up UnsafePtr, to types.Type) Value {
	if up.v == nil || up.t == nil {
		return (*Value)(nil)
	}
	toElem := to.Underlying().(*types.Pointer).Elem()
	fromElem := up.t.Underlying().(*types.Pointer).Elem()
	if types.Identical(toElem, fromElem) || types.Identical(toElem.Underlying(), fromElem.Underlying()) {
		return up.v
	}
	if vp, ok := up.v.(ViewPtr); ok {
		// casting back to the inner type, or to another wrapper of the same inner type
		if ip := innerType(vp.t); ip != nil {
			if types.Identical(toElem, ip) {
				return vp.inner
			}
			if ti := innerType(toElem); ti != nil && types.Identical(ti, ip) {
				return ViewPtr{inner: vp.inner, t: toElem}
			}
		}
	}
	// *X -> *struct{ X ; ...}
	if ti := innerType(toElem); ti != nil && types.Identical(ti, fromElem) {
		return ViewPtr{inner: up.v, t: toElem}
	}
	// scalar viewed as byte array: *int32 -> *[4]byte etc.
	if at, ok := toElem.Underlying().(*types.Array); ok && isByteType(at.Elem()) {
		if cell, ok := up.v.(*Value); ok && cell != nil {
			if t, ok := (*cell).(*Term); ok && int(t.sort) == int(at.Len())*8 {
				// read-only little-endian view (a copy; writes through it are not reflected)
				arr := ex.newByteArrZero(ex.tc.BV(64, uint64(at.Len())))
				for i := 0; i < int(at.Len()); i++ {
					arr.Write(ex.tc.BV(64, uint64(i)), ex.tc.Extract(8*i+7, 8*i, t))
				}
				ex.stubHits["unsafe scalar->bytes view (copy)"]++
				c := new(Value)
				*c = arr
				return c
			}
		}
	}
	ex.unsupported(fmt.Sprintf("unsafe cast %s -> %s", up.t, to))
	return nil
}

// innerType returns X if t is struct{ X; ... } with X embedded first (single-field wrappers)
func innerType(t types.Type) types.Type {
	st, ok := t.Underlying().(*types.Struct)
	if !ok || st.NumFields() != 1 {
		return nil
	}
	return st.Field(0).Type()
}

// ---------- channels (sequential semantics only) ----------

func (ex *Exec) chanSend(c *ChanObj, v Value) {
	if c == nil {
		ex.yield(func() bool { return false })
	}
	if c.closed {
		ex.goPanic("send on closed channel")
	}
	if c.cap == 0 {
		// unbuffered: hand the value over and wait until a receiver took it
		it := &sendItem{v: v}
		c.sendq = append(c.sendq, it)
		ex.yield(func() bool { return it.taken })
		return
	}
	if len(c.buf) >= c.cap {
		ex.yield(func() bool { return len(c.buf) < c.cap })
	}
	c.buf = append(c.buf, v)
	if ex.schedOn {
		ex.yield(nil)
	}
}

func (ex *Exec) chanRecv(c *ChanObj, t types.Type) (Value, bool) {
	if c == nil {
		ex.yield(func() bool { return false })
	}
	if len(c.buf) == 0 && len(c.sendq) == 0 && !c.closed {
		ex.yield(func() bool { return len(c.buf) > 0 || len(c.sendq) > 0 || c.closed })
	} else if ex.schedOn {
		ex.yield(nil)
		if len(c.buf) == 0 && len(c.sendq) == 0 && !c.closed {
			ex.yield(func() bool { return len(c.buf) > 0 || len(c.sendq) > 0 || c.closed })
		}
	}
	if len(c.buf) > 0 {
		v := c.buf[0]
		c.buf = c.buf[1:]
		return v, true
	}
	if len(c.sendq) > 0 {
		it := c.sendq[0]
		c.sendq = c.sendq[1:]
		it.taken = true
		return it.v, true
	}
	return ex.zero(t), false
}

// ---------- builtins ----------

func (ex *Exec) callBuiltin(fr *frame, b *ssa.Builtin, args []Value, site ssa.Instruction) Value {
	tc := ex.tc
	switch b.Name() {
	case "len":
		switch x := args[0].(type) {
		case Str:
			return tc.BV(64, uint64(x.Len()))
		case Slice:
			return tc.BV(64, uint64(x.len))
		case ByteSlice:
			return x.len
		case *MapObj:
			if x == nil {
				return tc.BV(64, 0)
			}
			return tc.BV(64, uint64(x.n))
		case *ChanObj:
			return tc.BV(64, uint64(len(x.buf)))
		case *ArrObj:
			return tc.BV(64, uint64(len(x.elems)))
		case *ByteArr:
			return x.size
		case *Value: // pointer to array
			switch a := (*x).(type) {
			case *ArrObj:
				return tc.BV(64, uint64(len(a.elems)))
			case *ByteArr:
				return a.size
			}
		}
	case "cap":
		switch x := args[0].(type) {
		case Slice:
			return tc.BV(64, uint64(x.cap))
		case ByteSlice:
			return x.cap
		case *ChanObj:
			return tc.BV(64, uint64(x.cap))
		}
	case "append":
		r := ex.appendOp(args[0], args[1])
		if sl, ok := r.(Slice); ok && sl.arr != nil {
			if ci, ok := site.(ssa.CallInstruction); ok {
				if st, ok := ci.Common().Args[0].Type().Underlying().(*types.Slice); ok {
					for i := sl.off + sl.len; i < sl.off+sl.cap && i < len(sl.arr.elems); i++ {
						if sl.arr.elems[i] == nil {
							sl.arr.elems[i] = ex.zero(st.Elem())
						}
					}
				}
			}
		}
		return r
	case "copy":
		return ex.copyOp(args[0], args[1])
	case "delete":
		m, _ := args[0].(*MapObj)
		if m != nil {
			ex.mapDelete(m, args[1])
		}
		return nil
	case "panic":
		panic(&goPanicT{val: args[0], msg: ex.describe(args[0])})
	case "recover":
		// recover is only effective when called directly by a deferred function
		caller := fr.caller
		if caller != nil && caller.panicking != nil {
			p := caller.panicking
			caller.panicking = nil
			return p.val
		}
		return Iface{}
	case "print", "println":
		return nil
	case "close":
		c := args[0].(*ChanObj)
		c.closed = true
		return nil
	case "min", "max":
		call := site.(ssa.CallInstruction).Common()
		t := call.Args[0].Type()
		r := args[0].(*Term)
		for _, a := range args[1:] {
			y := a.(*Term)
			var lt *Term
			if isFloat(t) {
				lt = tc.FPCmp(OFPLt, y, r)
			} else if isSigned(t) {
				lt = tc.Cmp(OSLT, y, r)
			} else {
				lt = tc.Cmp(OULT, y, r)
			}
			if b.Name() == "max" {
				if isFloat(t) {
					lt = tc.FPCmp(OFPLt, r, y)
				} else if isSigned(t) {
					lt = tc.Cmp(OSLT, r, y)
				} else {
					lt = tc.Cmp(OULT, r, y)
				}
			}
			r = tc.Ite(lt, y, r)
		}
		return r
	case "ssa:wrapnilchk":
		if isNilPtr(args[0]) {
			ex.goPanic("value method called via nil pointer")
		}
		return args[0]
	case "clear":
		if m, ok := args[0].(*MapObj); ok && m != nil {
			m.keys, m.vals, m.live, m.n = nil, nil, nil, 0
			m.index = map[string]int{}
		}
		return nil
	}
	ex.unsupported(fmt.Sprintf("builtin %s on %T", b.Name(), args[0]))
	return nil
}

func (ex *Exec) appendOp(dst, src Value) Value {
	tc := ex.tc
	switch d := dst.(type) {
	case ByteSlice:
		var s ByteSlice
		switch x := src.(type) {
		case ByteSlice:
			s = x
		case Str:
			s = ex.convert(types.Typ[types.String], types.NewSlice(types.Typ[types.Byte]), x).(ByteSlice)
		}
		newLen := tc.Bin(OAdd, d.len, s.len)
		if s.len.IsConst() && s.len.val == 0 {
			return d
		}
		// fits in capacity?
		if d.arr != nil && ex.branch(tc.Cmp(OULE, newLen, d.cap)) {
			d.arr.Move(tc.Bin(OAdd, d.off, d.len), s.arr, s.off, s.len)
			return ByteSlice{d.arr, d.off, newLen, d.cap}
		}
		// grow: new backing with capacity = newLen (+ slack when concrete)
		ncap := newLen
		if newLen.IsConst() {
			ncap = tc.BV(64, newLen.val*2)
		}
		na := ex.newByteArrZero(ncap)
		if d.arr != nil {
			na.Move(tc.BV(64, 0), d.arr, d.off, d.len)
		}
		na.Move(d.len, s.arr, s.off, s.len)
		return ByteSlice{na, tc.BV(64, 0), newLen, ncap}
	case Slice:
		s := src.(Slice)
		if s.len == 0 {
			return d
		}
		nl := d.len + s.len
		if d.arr != nil && nl <= d.cap {
			for i := 0; i < s.len; i++ {
				d.arr.elems[d.off+d.len+i] = ex.copyVal(s.arr.elems[s.off+i])
			}
			return Slice{d.arr, d.off, nl, d.cap}
		}
		nc := nl * 2
		na := &ArrObj{elems: make([]Value, nc)}
		for i := 0; i < d.len; i++ {
			na.elems[i] = d.arr.elems[d.off+i]
		}
		for i := 0; i < s.len; i++ {
			na.elems[d.len+i] = ex.copyVal(s.arr.elems[s.off+i])
		}
		// zero fill the spare capacity lazily: find elem zero from an existing element is impossible,
		// so spare slots stay nil until written; reads beyond len are prevented by bounds checks.
		return Slice{na, 0, nl, nc}
	}
	ex.unsupported(fmt.Sprintf("append to %T", dst))
	return nil
}

func (ex *Exec) copyOp(dst, src Value) Value {
	tc := ex.tc
	switch d := dst.(type) {
	case ByteSlice:
		var s ByteSlice
		switch x := src.(type) {
		case ByteSlice:
			s = x
		case Str:
			s = ex.convert(types.Typ[types.String], types.NewSlice(types.Typ[types.Byte]), x).(ByteSlice)
		}
		n := tc.Ite(tc.Cmp(OULT, d.len, s.len), d.len, s.len)
		if d.arr == nil || s.arr == nil {
			return tc.BV(64, 0)
		}
		d.arr.Move(d.off, s.arr, s.off, n)
		return n
	case Slice:
		s := src.(Slice)
		n := d.len
		if s.len < n {
			n = s.len
		}
		tmp := make([]Value, n)
		for i := 0; i < n; i++ {
			tmp[i] = ex.copyVal(s.arr.elems[s.off+i])
		}
		for i := 0; i < n; i++ {
			d.arr.elems[d.off+i] = tmp[i]
		}
		return tc.BV(64, uint64(n))
	}
	ex.unsupported(fmt.Sprintf("copy to %T", dst))
	return nil
}

func (ex *Exec) cfgMapOrders() bool {
	if !ex.mapOrders {
		return false
	}
	if ex.mapOrderFn == "" {
		return true
	}
	return ex.curFrame != nil && strings.Contains(ex.curFrame.fn.String(), ex.mapOrderFn)
}
func (ex *Exec) cfgHavocFloat() bool { return true }

func debugf(format string, a ...interface{}) {
	fmt.Fprintf(os.Stderr, format, a...)
}

func dumpTerm(t *Term, depth int) string {
	if isLeaf(t) || depth == 0 {
		return t.String()
	}
	s := "(" + opNames[t.op]
	if t.op == OExtract {
		s = fmt.Sprintf("(extract[%d:%d]", t.p, t.q)
	}
	for _, a := range t.args {
		s += " " + dumpTerm(a, depth-1)
	}
	return s + ")"
}
