package main

import (
	"encoding/json"
	"flag"
	"fmt"
	"os"
	"sort"
	"strings"
	"sync"
	"time"

	"golang.org/x/tools/go/packages"
	"golang.org/x/tools/go/ssa"
	"golang.org/x/tools/go/ssa/ssautil"
)

type PathRec struct {
	Decisions []int64    `json:"decisions"`
	Outcome   Outcome    `json:"outcome"`
	Msg       string     `json:"msg,omitempty"`
	Violation *Violation `json:"violation,omitempty"`
	Steps     int        `json:"steps"`
	Notes     []string   `json:"notes,omitempty"`
}

type EntryResult struct {
	Entry        string                 `json:"entry"`
	Paths        int                    `json:"paths"`
	ByOutcome    map[Outcome]int        `json:"by_outcome"`
	Asserts      map[string]*assertStat `json:"asserts"`
	Covers       map[string]int         `json:"covers"`
	Violations   []PathRec              `json:"violations"`
	Faults       []PathRec              `json:"faults"`
	Problems     map[string]int         `json:"problems"` // incomplete / unsupported / panic messages
	ProblemPaths map[string][]int64     `json:"problem_paths"`
	Funcs        map[string]int         `json:"funcs"`
	Stubs        map[string]int         `json:"stubs"`
	Queries      int                    `json:"queries"`
	SolverSec    float64                `json:"solver_s"`
	MaxQuerySec  float64                `json:"max_query_s"`
	Unknowns     int                    `json:"unknowns"`
	SolverErrors int                    `json:"solver_errors"`
	Inconclusive int                    `json:"inconclusive"`
	Havocs       int                    `json:"havocs"`
	WallSec      float64                `json:"wall_s"`
	Steps        int64                  `json:"steps"`
	Samples      []PathRec              `json:"samples"`
	Truncated    bool                   `json:"truncated"`
	Unwind       int                    `json:"unwind"`
}

type workQueue struct {
	mu    sync.Mutex
	cond  *sync.Cond
	items []workItem
	busy  int
	done  bool
}

func (q *workQueue) push(it ...workItem) {
	q.mu.Lock()
	q.items = append(q.items, it...)
	q.mu.Unlock()
	q.cond.Broadcast()
}

func (q *workQueue) pop() (workItem, bool) {
	q.mu.Lock()
	defer q.mu.Unlock()
	for {
		if q.done {
			return workItem{}, false
		}
		if n := len(q.items); n > 0 {
			it := q.items[n-1]
			q.items = q.items[:n-1]
			q.busy++
			return it, true
		}
		if q.busy == 0 {
			q.done = true
			q.cond.Broadcast()
			return workItem{}, false
		}
		q.cond.Wait()
	}
}

func (q *workQueue) finish() {
	q.mu.Lock()
	q.busy--
	q.mu.Unlock()
	q.cond.Broadcast()
}

func (q *workQueue) stop() {
	q.mu.Lock()
	q.done = true
	q.mu.Unlock()
	q.cond.Broadcast()
}

func runPath(ex *Exec, fn *ssa.Function, item workItem) (rec PathRec) {
	ex.resetPath(item)
	defer func() {
		ex.schedCleanup()
		rec.Decisions = append([]int64{}, ex.decisions...)
		rec.Steps = ex.steps
		rec.Notes = ex.notes
		if r := recover(); r != nil {
			switch p := r.(type) {
			case pathEnd:
				rec.Outcome = p.out
				rec.Msg = p.msg
				rec.Violation = ex.violation
				if p.out == OutPanic || p.out == OutDeadlock || p.out == OutNonTerm || (p.out == OutIncomplete && strings.Contains(p.msg, "unwind bound")) {
					rec.Violation = ex.modelForPath(string(p.out) + ": " + p.msg)
				}
			case *goPanicT:
				rec.Outcome = OutPanic
				rec.Msg = "panic: " + p.msg
				rec.Violation = ex.modelForPath(rec.Msg)
			default:
				rec.Outcome = OutUnsupported
				rec.Msg = fmt.Sprintf("engine fault: %v", r)
				if os.Getenv("GOSYM_TRACE") != "" {
					panic(r)
				}
			}
		}
	}()
	ex.callFn(nil, fn, nil, nil)
	rec.Outcome = OutOK
	return
}

func main() {
	dir := flag.String("dir", "/repo/lib", "module directory")
	overlay := flag.String("overlay", "", "overlay json {Replace:{virtual:real}}")
	tags := flag.String("tags", "verif", "build tags")
	pkgPat := flag.String("pkg", "", "package pattern containing the entries")
	entries := flag.String("entry", "", "comma separated harness entry functions")
	unwind := flag.Int("unwind", 8, "symbolic branch visits per block per frame")
	steps := flag.Int("steps", 20000000, "instruction budget per path")
	workers := flag.Int("workers", 16, "parallel workers")
	timeout := flag.Int("timeout", 30000, "solver timeout per query (ms)")
	solverBin := flag.String("solver", "z3", "solver binary")
	out := flag.String("out", "", "result json")
	maxPaths := flag.Int("maxpaths", 0, "stop after this many paths (0 = unlimited); reported as truncated")
	maxAlts := flag.Int("maxalts", 64, "max alternatives when concretising a value")
	replay := flag.String("decisions", "", "run only this decision string (comma separated)")
	verbose := flag.Bool("v", false, "verbose")
	smtlog := flag.String("smtlog", "", "log solver input of worker 0")
	mergeList := flag.String("merge", "default", "comma separated functions to summarise by state merging (default: types.Value comparison methods)")
	flag.Parse()

	t0 := time.Now()
	cfg := &packages.Config{
		Mode:       packages.LoadAllSyntax,
		Dir:        *dir,
		BuildFlags: []string{"-tags=" + *tags},
		Env:        append(os.Environ(), "GOFLAGS=-mod=mod", "GOPROXY=off", "GOSUMDB=off", "GOTOOLCHAIN=local"),
	}
	if *overlay != "" {
		data, err := os.ReadFile(*overlay)
		if err != nil {
			fatal(err)
		}
		var ov struct{ Replace map[string]string }
		if err := json.Unmarshal(data, &ov); err != nil {
			fatal(err)
		}
		cfg.Overlay = map[string][]byte{}
		for virt, real := range ov.Replace {
			b, err := os.ReadFile(real)
			if err != nil {
				fatal(err)
			}
			cfg.Overlay[virt] = b
		}
	}
	initial, err := packages.Load(cfg, *pkgPat)
	if err != nil {
		fatal(err)
	}
	if packages.PrintErrors(initial) > 0 {
		fatal(fmt.Errorf("package load errors"))
	}
	prog, pkgs := ssautil.AllPackages(initial, ssa.InstantiateGenerics)
	prog.Build()
	if *verbose {
		fmt.Fprintf(os.Stderr, "loaded+built in %.1fs\n", time.Since(t0).Seconds())
	}
	if len(pkgs) == 0 || pkgs[0] == nil {
		fatal(fmt.Errorf("no package"))
	}
	mainPkg := pkgs[0]
	intr := buildIntrinsics()
	mergeFns := map[string]bool{}
	if *mergeList == "default" {
		for _, m := range []string{"CompareEquals", "CompareNotEquals", "CompareGreaterThan", "CompareGreaterThanOrEqual", "CompareLessThan", "CompareLessThanOrEqual", "IsNull", "IsInfMax", "IsInfMin"} {
			mergeFns["(github.com/ryogrid/SamehadaDB/lib/types.Value)."+m] = true
		}
	} else if *mergeList != "" && *mergeList != "none" {
		for _, m := range strings.Split(*mergeList, ",") {
			mergeFns[m] = true
		}
	}

	results := []*EntryResult{}
	for _, entry := range strings.Split(*entries, ",") {
		fn := mainPkg.Func(entry)
		if fn == nil {
			fatal(fmt.Errorf("entry %s not found in %s", entry, mainPkg.Pkg.Path()))
		}
		res := &EntryResult{Entry: entry, ByOutcome: map[Outcome]int{}, Asserts: map[string]*assertStat{}, Covers: map[string]int{},
			Problems: map[string]int{}, ProblemPaths: map[string][]int64{}, Funcs: map[string]int{}, Stubs: map[string]int{}, Unwind: *unwind}
		te := time.Now()
		q := &workQueue{}
		q.cond = sync.NewCond(&q.mu)
		if *replay != "" {
			var d []int64
			for _, s := range strings.Split(*replay, ",") {
				var x int64
				fmt.Sscan(strings.TrimSpace(s), &x)
				d = append(d, x)
			}
			q.push(workItem{prefix: d})
		} else {
			q.push(workItem{})
		}
		var mu sync.Mutex
		var wg sync.WaitGroup
		nw := *workers
		if *replay != "" {
			nw = 1
		}
		for w := 0; w < nw; w++ {
			wg.Add(1)
			go func(w int) {
				defer wg.Done()
				tc := NewTermCtx()
				lp := ""
				if w == 0 {
					lp = *smtlog
				}
				sv, err := NewSolver(tc, *solverBin, *timeout, lp)
				if err != nil {
					fatal(err)
				}
				defer sv.Close()
				ex := &Exec{prog: prog, tc: tc, solver: sv, intr: intr,
					cfg:       &Config{Unwind: *unwind, MaxSteps: *steps, TimeoutMs: *timeout, SolverBin: *solverBin, Verbose: *verbose, MaxAlts: *maxAlts},
					funcInstr: map[string]int{}, stubHits: map[string]int{}, mergeFns: mergeFns}
				for {
					item, ok := q.pop()
					if !ok {
						break
					}
					if tc.nextID > 3000000 {
						tc = NewTermCtx()
						ex.tc = tc
						sv.Restart(tc)
					}
					rec := runPath(ex, fn, item)
					if *replay == "" {
						q.push(ex.pending...)
					}
					mu.Lock()
					res.Paths++
					res.ByOutcome[rec.Outcome]++
					res.Steps += int64(rec.Steps)
					res.Inconclusive += ex.inconcl
					res.Havocs += ex.havocs
					for l, st := range ex.asserts {
						a := res.Asserts[l]
						if a == nil {
							a = &assertStat{}
							res.Asserts[l] = a
						}
						a.Reached += st.Reached
						a.Discharged += st.Discharged
						a.Queries += st.Queries
						a.Ms += st.Ms
						if st.MaxMs > a.MaxMs {
							a.MaxMs = st.MaxMs
						}
					}
					if rec.Outcome == OutOK || rec.Outcome == OutViolation {
						for c := range ex.covers {
							res.Covers[c]++
						}
					}
					switch rec.Outcome {
					case OutViolation:
						if len(res.Violations) < 3000 {
							res.Violations = append(res.Violations, rec)
						}
					case OutOK:
						if len(res.Samples) < 3 {
							res.Samples = append(res.Samples, rec)
						}
					case OutInfeasible:
					default:
						if rec.Violation != nil && len(res.Faults) < 3000 {
							res.Faults = append(res.Faults, rec)
						}
						key := string(rec.Outcome) + ": " + rec.Msg
						res.Problems[key]++
						if _, ok := res.ProblemPaths[key]; !ok {
							res.ProblemPaths[key] = rec.Decisions
						}
					}
					stop := *maxPaths > 0 && res.Paths >= *maxPaths
					if *verbose {
						fmt.Fprintf(os.Stderr, "[w%d] path %d %s %s steps=%d dec=%d\n", w, res.Paths, rec.Outcome, rec.Msg, rec.Steps, len(rec.Decisions))
					}
					mu.Unlock()
					q.finish()
					if stop {
						mu.Lock()
						res.Truncated = true
						mu.Unlock()
						q.stop()
					}
				}
				mu.Lock()
				for k, v := range ex.funcInstr {
					res.Funcs[k] += v
				}
				for k, v := range ex.stubHits {
					res.Stubs[k] += v
				}
				res.Queries += sv.Queries
				res.SolverSec += sv.SolveTime.Seconds()
				if s := sv.MaxQuery.Seconds(); s > res.MaxQuerySec {
					res.MaxQuerySec = s
				}
				res.Unknowns += sv.Unknowns
				res.SolverErrors += sv.Errors
				mu.Unlock()
			}(w)
		}
		wg.Wait()
		res.WallSec = time.Since(te).Seconds()
		results = append(results, res)
		// summary line
		keys := []string{}
		for k, v := range res.ByOutcome {
			keys = append(keys, fmt.Sprintf("%s=%d", k, v))
		}
		sort.Strings(keys)
		fmt.Fprintf(os.Stderr, "%s: paths=%d %s queries=%d solver=%.1fs wall=%.1fs\n", entry, res.Paths, strings.Join(keys, " "), res.Queries, res.SolverSec, res.WallSec)
		for k, v := range res.Problems {
			fmt.Fprintf(os.Stderr, "   problem x%d: %s  path=%v\n", v, k, res.ProblemPaths[k])
		}
		for vi, v := range res.Violations {
			if vi < 5 {
				fmt.Fprintf(os.Stderr, "   VIOLATION %s decisions=%v\n", v.Msg, v.Decisions)
			}
		}
	}
	if *out != "" {
		b, _ := json.MarshalIndent(results, "", " ")
		os.WriteFile(*out, b, 0644)
	}
}

func fatal(err error) {
	fmt.Fprintln(os.Stderr, "gosym:", err)
	os.Exit(2)
}
