package main

// Cooperative scheduler for interpreted goroutines (C12): every interpreted goroutine runs on its own
// native goroutine, but a baton guarantees that exactly one runs at a time. Switch points are the `go`
// statement, channel operations, blocking mutex operations and time.Sleep; at a switch point the next
// goroutine to run is a fork (ex.choose) over the runnable ones, so all schedules at that granularity are
// explored. Goroutines started by functions not on the allow list are recorded and never run.

import (
	"strings"

	"golang.org/x/tools/go/ssa"
)

type gor struct {
	id    int
	wake  chan bool
	done  bool
	cond  func() bool
	frame *frame
	name  string
	started bool
}

type gorAbort struct{}

type sendItem struct {
	v     Value
	taken bool
}

func (ex *Exec) schedInit() {
	ex.gors = []*gor{{id: 0, wake: make(chan bool), name: "main", started: true}}
	ex.curG = ex.gors[0]
}

func (ex *Exec) schedAllowed(name string) bool {
	if !ex.schedOn {
		return false
	}
	for _, a := range ex.schedAllow {
		if strings.Contains(name, a) {
			return true
		}
	}
	return false
}

func fnName(v Value) string {
	switch f := v.(type) {
	case *ssa.Function:
		return f.String()
	case *Closure:
		return f.fn.String()
	}
	return "?"
}

func (ex *Exec) spawn(fn Value, args []Value) {
	g := &gor{id: len(ex.gors), wake: make(chan bool), name: fnName(fn)}
	ex.gors = append(ex.gors, g)
	go func() {
		run := <-g.wake
		if !run {
			return
		}
		g.started = true
		defer func() {
			r := recover()
			g.done = true
			if r != nil {
				if _, ok := r.(gorAbort); ok {
					return
				}
				// path end or interpreted panic inside a goroutine: hand it to the main goroutine
				if ex.gorPanic == nil {
					ex.gorPanic = r
				}
				ex.curG = ex.gors[0]
				ex.gors[0].wake <- true
				return
			}
			ex.exitGor(g)
		}()
		ex.curFrame = nil
		ex.callValue(nil, fn, args, nil)
	}()
}

func (ex *Exec) runnable() []*gor {
	var r []*gor
	for _, g := range ex.gors {
		if !g.done && (g.cond == nil || g.cond()) {
			r = append(r, g)
		}
	}
	return r
}

// yield: the current goroutine reaches a switch point; cond != nil means it is blocked until cond() holds.
func (ex *Exec) yield(cond func() bool) {
	if !ex.schedOn || len(ex.gors) == 0 {
		if cond != nil && !cond() {
			ex.end(OutDeadlock, "blocking operation in single-threaded execution")
		}
		return
	}
	g := ex.curG
	if cond == nil {
		// voluntary switch point: switching away from a goroutine that could go on is a preemption; these
		// are bounded (context bounding), blocking switches are not
		if ex.preemptLeft <= 0 {
			return
		}
	}
	g.cond = cond
	g.frame = ex.curFrame
	voluntary := cond == nil
	for {
		if ex.gorPanic != nil && g.id == 0 {
			p := ex.gorPanic
			ex.gorPanic = nil
			panic(p)
		}
		rs := ex.runnable()
		if len(rs) == 0 {
			if g.id == 0 {
				ex.end(OutDeadlock, "all goroutines are blocked: "+ex.gorStates())
			}
			panic(pathEnd{OutDeadlock, "all goroutines are blocked: " + ex.gorStates()})
		}
		var pick *gor
		if voluntary {
			// decision 0 = keep running
			others := []*gor{g}
			for _, o := range rs {
				if o != g {
					others = append(others, o)
				}
			}
			pick = others[ex.choose(len(others))]
			if pick != g {
				ex.preemptLeft--
			}
			voluntary = false
		} else {
			pick = rs[ex.choose(len(rs))]
		}
		if pick == g {
			g.cond = nil
			ex.curFrame = g.frame
			return
		}
		ex.curG = pick
		pick.wake <- true
		if ok := <-g.wake; !ok {
			panic(gorAbort{})
		}
		ex.curG = g
		if g.cond == nil || g.cond() {
			if ex.gorPanic != nil && g.id == 0 {
				continue
			}
			g.cond = nil
			ex.curFrame = g.frame
			return
		}
	}
}

// exitGor: a goroutine finished; pass the baton on.
func (ex *Exec) exitGor(g *gor) {
	rs := ex.runnable()
	if len(rs) == 0 {
		// everybody else is blocked: report through main (which must be among the blocked ones)
		if ex.gorPanic == nil {
			ex.gorPanic = pathEnd{OutDeadlock, "all goroutines are blocked: " + ex.gorStates()}
		}
		ex.curG = ex.gors[0]
		ex.gors[0].wake <- true
		return
	}
	var pick *gor
	func() {
		defer func() {
			if r := recover(); r != nil {
				if ex.gorPanic == nil {
					ex.gorPanic = r
				}
				pick = ex.gors[0]
			}
		}()
		pick = rs[ex.choose(len(rs))]
	}()
	ex.curG = pick
	pick.wake <- true
}

func (ex *Exec) gorStates() string {
	var sb strings.Builder
	for _, g := range ex.gors {
		st := "runnable"
		if g.done {
			st = "done"
		} else if g.cond != nil {
			st = "blocked"
		}
		sb.WriteString(g.name + "=" + st + " ")
	}
	return sb.String()
}

// schedCleanup releases the native goroutines of a finished path.
func (ex *Exec) schedCleanup() {
	for _, g := range ex.gors {
		if g.id != 0 && !g.done {
			g.done = true
			select {
			case g.wake <- false:
			default:
				// the goroutine is not waiting (cannot happen under the baton protocol); leave it
			}
		}
	}
	ex.gors = nil
	ex.curG = nil
	ex.gorPanic = nil
}
