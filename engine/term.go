package main

// Hash-consed SMT terms with eager constant folding.

import (
	"fmt"
	"math"
	"strings"
)

type Op uint8

const (
	OConst Op = iota
	OVar
	ONot
	OAnd
	OOr
	OEq
	OIte
	OAdd
	OSub
	OMul
	OUDiv
	OURem
	OSDiv
	OSRem
	OShl
	OLShr
	OAShr
	OBAnd
	OBOr
	OBXor
	OBNot
	ONeg
	OULT
	OULE
	OSLT
	OSLE
	OConcat
	OExtract
	OZExt
	OSExt
	OSelect
	OStore
	OFPLt
	OFPLe
	OFPEq
	OFPIsNaN
	OFPAdd
	OFPSub
	OFPMul
	OFPDiv
	OFPNeg
	OFPConv   // float <-> float width change; p = target width
	OFPToSBV  // float -> signed int (RTZ); p = target width
	OFPToUBV  // float -> unsigned int
	OSBVToFP  // signed int -> float; p = target width
	OUBVToFP  // unsigned int -> float
	OUF       // uninterpreted function; name = symbol
	OConstArr // (as const) array of zero bytes
)

var opNames = map[Op]string{
	ONot: "not", OAnd: "and", OOr: "or", OEq: "=", OIte: "ite", OAdd: "bvadd", OSub: "bvsub", OMul: "bvmul",
	OUDiv: "bvudiv", OURem: "bvurem", OSDiv: "bvsdiv", OSRem: "bvsrem", OShl: "bvshl", OLShr: "bvlshr", OAShr: "bvashr",
	OBAnd: "bvand", OBOr: "bvor", OBXor: "bvxor", OBNot: "bvnot", ONeg: "bvneg", OULT: "bvult", OULE: "bvule",
	OSLT: "bvslt", OSLE: "bvsle", OConcat: "concat", OSelect: "select", OStore: "store",
}

// Sort: w==0 => Bool; w>0 => BitVec w; w==-1 => Array BV32->BV8
type Sort int

const SBool Sort = 0
const SArr Sort = -1

func (s Sort) String() string {
	switch {
	case s == SBool:
		return "Bool"
	case s == SArr:
		return "(Array (_ BitVec 32) (_ BitVec 8))"
	}
	return fmt.Sprintf("(_ BitVec %d)", int(s))
}

type Term struct {
	op   Op
	sort Sort
	args []*Term
	val  uint64 // const value (masked); bool: 0/1
	name string // var / uf name
	p, q int    // extract hi,lo ; ext amount ; conv width
	id   int
}

type TermCtx struct {
	tab    map[string]*Term
	nextID int
	vars   []*Term
	ufs    map[string]string // name -> declaration
}

func NewTermCtx() *TermCtx {
	return &TermCtx{tab: map[string]*Term{}, ufs: map[string]string{}}
}

func mask(w Sort) uint64 {
	if w >= 64 {
		return ^uint64(0)
	}
	return (uint64(1) << uint(w)) - 1
}

func (c *TermCtx) key(op Op, sort Sort, args []*Term, val uint64, name string, p, q int) string {
	var sb strings.Builder
	fmt.Fprintf(&sb, "%d:%d:%d:%s:%d:%d", op, sort, val, name, p, q)
	for _, a := range args {
		fmt.Fprintf(&sb, ",%d", a.id)
	}
	return sb.String()
}

func (c *TermCtx) mk(op Op, sort Sort, args []*Term, val uint64, name string, p, q int) *Term {
	k := c.key(op, sort, args, val, name, p, q)
	if t, ok := c.tab[k]; ok {
		return t
	}
	c.nextID++
	t := &Term{op: op, sort: sort, args: args, val: val, name: name, p: p, q: q, id: c.nextID}
	c.tab[k] = t
	return t
}

func (t *Term) IsConst() bool { return t.op == OConst }
func (t *Term) Width() int    { return int(t.sort) }

// signed value of const
func (t *Term) Int() int64 {
	w := uint(t.sort)
	if w >= 64 || w == 0 {
		return int64(t.val)
	}
	if t.val&(1<<(w-1)) != 0 {
		return int64(t.val | ^mask(t.sort))
	}
	return int64(t.val)
}
func (t *Term) Uint() uint64 { return t.val }
func (t *Term) IsTrue() bool  { return t.op == OConst && t.sort == SBool && t.val == 1 }
func (t *Term) IsFalse() bool { return t.op == OConst && t.sort == SBool && t.val == 0 }

func (c *TermCtx) BV(w int, v uint64) *Term {
	return c.mk(OConst, Sort(w), nil, v&mask(Sort(w)), "", 0, 0)
}
func (c *TermCtx) Bool(b bool) *Term {
	if b {
		return c.mk(OConst, SBool, nil, 1, "", 0, 0)
	}
	return c.mk(OConst, SBool, nil, 0, "", 0, 0)
}
func (c *TermCtx) Var(name string, s Sort) *Term {
	k := c.key(OVar, s, nil, 0, name, 0, 0)
	if t, ok := c.tab[k]; ok {
		return t
	}
	t := c.mk(OVar, s, nil, 0, name, 0, 0)
	c.vars = append(c.vars, t)
	return t
}
func (c *TermCtx) ConstArr() *Term { return c.mk(OConstArr, SArr, nil, 0, "", 0, 0) }

func (c *TermCtx) Not(a *Term) *Term {
	if a.IsConst() {
		return c.Bool(a.val == 0)
	}
	if a.op == ONot {
		return a.args[0]
	}
	return c.mk(ONot, SBool, []*Term{a}, 0, "", 0, 0)
}
func (c *TermCtx) And(a, b *Term) *Term {
	if a.IsConst() {
		if a.val == 0 {
			return a
		}
		return b
	}
	if b.IsConst() {
		if b.val == 0 {
			return b
		}
		return a
	}
	if a == b {
		return a
	}
	return c.mk(OAnd, SBool, []*Term{a, b}, 0, "", 0, 0)
}
func (c *TermCtx) Or(a, b *Term) *Term {
	if a.IsConst() {
		if a.val == 1 {
			return a
		}
		return b
	}
	if b.IsConst() {
		if b.val == 1 {
			return b
		}
		return a
	}
	if a == b {
		return a
	}
	return c.mk(OOr, SBool, []*Term{a, b}, 0, "", 0, 0)
}
func (c *TermCtx) Eq(a, b *Term) *Term {
	if a == b {
		return c.Bool(true)
	}
	if a.sort != b.sort {
		panic(fmt.Sprintf("Eq sort mismatch %v %v", a.sort, b.sort))
	}
	if a.IsConst() && b.IsConst() {
		return c.Bool(a.val == b.val)
	}
	if a.sort == SBool {
		if a.IsConst() {
			if a.val == 1 {
				return b
			}
			return c.Not(b)
		}
		if b.IsConst() {
			if b.val == 1 {
				return a
			}
			return c.Not(a)
		}
	}
	// ite(c,k1,k2) == k  with constants
	if b.IsConst() && a.op == OIte && a.args[1].IsConst() && a.args[2].IsConst() {
		e1 := a.args[1].val == b.val
		e2 := a.args[2].val == b.val
		switch {
		case e1 && e2:
			return c.Bool(true)
		case e1:
			return a.args[0]
		case e2:
			return c.Not(a.args[0])
		default:
			return c.Bool(false)
		}
	}
	if a.IsConst() && b.op == OIte {
		return c.Eq(b, a)
	}
	if a.op == OZExt && b.op == OZExt && a.args[0].sort == b.args[0].sort {
		return c.Eq(a.args[0], b.args[0])
	}
	if a.op == OZExt && b.IsConst() {
		iw := a.args[0].sort
		if b.val > mask(iw) {
			return c.Bool(false)
		}
		return c.Eq(a.args[0], c.BV(int(iw), b.val))
	}
	if b.op == OZExt && a.IsConst() {
		return c.Eq(b, a)
	}
	if a.id > b.id {
		a, b = b, a
	}
	return c.mk(OEq, SBool, []*Term{a, b}, 0, "", 0, 0)
}
func (c *TermCtx) Ite(cond, a, b *Term) *Term {
	if cond.IsConst() {
		if cond.val == 1 {
			return a
		}
		return b
	}
	if a == b {
		return a
	}
	if a.sort != b.sort {
		panic("Ite sort mismatch")
	}
	if a.sort == SBool {
		if a.IsTrue() && b.IsFalse() {
			return cond
		}
		if a.IsFalse() && b.IsTrue() {
			return c.Not(cond)
		}
	}
	return c.mk(OIte, a.sort, []*Term{cond, a, b}, 0, "", 0, 0)
}

func sx(v uint64, w Sort) int64 {
	if w >= 64 {
		return int64(v)
	}
	if v&(1<<(uint(w)-1)) != 0 {
		return int64(v | ^mask(w))
	}
	return int64(v)
}

func (c *TermCtx) Bin(op Op, a, b *Term) *Term {
	if a.sort != b.sort {
		panic(fmt.Sprintf("Bin %v sort mismatch %v %v", opNames[op], a.sort, b.sort))
	}
	w := a.sort
	if a.IsConst() && b.IsConst() {
		x, y := a.val, b.val
		var r uint64
		switch op {
		case OAdd:
			r = x + y
		case OSub:
			r = x - y
		case OMul:
			r = x * y
		case OUDiv:
			if y == 0 {
				r = mask(w)
			} else {
				r = x / y
			}
		case OURem:
			if y == 0 {
				r = x
			} else {
				r = x % y
			}
		case OSDiv:
			if y == 0 {
				if sx(x, w) < 0 {
					r = 1
				} else {
					r = mask(w)
				}
			} else if sx(y, w) == -1 {
				r = uint64(-sx(x, w))
			} else {
				r = uint64(sx(x, w) / sx(y, w))
			}
		case OSRem:
			if y == 0 {
				r = x
			} else if sx(y, w) == -1 {
				r = 0
			} else {
				r = uint64(sx(x, w) % sx(y, w))
			}
		case OShl:
			if y >= uint64(w) {
				r = 0
			} else {
				r = x << y
			}
		case OLShr:
			if y >= uint64(w) {
				r = 0
			} else {
				r = x >> y
			}
		case OAShr:
			if y >= uint64(w) {
				if sx(x, w) < 0 {
					r = mask(w)
				} else {
					r = 0
				}
			} else {
				r = uint64(sx(x, w) >> y)
			}
		case OBAnd:
			r = x & y
		case OBOr:
			r = x | y
		case OBXor:
			r = x ^ y
		default:
			panic("bad binop")
		}
		return c.BV(int(w), r)
	}
	// identities
	switch op {
	case OAdd:
		if a.IsConst() && a.val == 0 {
			return b
		}
		if b.IsConst() && b.val == 0 {
			return a
		}
		return c.linear(op, a, b)
	case OSub:
		if b.IsConst() && b.val == 0 {
			return a
		}
		if a == b {
			return c.BV(int(w), 0)
		}
		return c.linear(op, a, b)
	case OMul:
		if a.IsConst() {
			a, b = b, a
		}
		if b.IsConst() {
			if b.val == 0 {
				return b
			}
			if b.val == 1 {
				return a
			}
		}
	case OBAnd:
		if a.IsConst() {
			a, b = b, a
		}
		if b.IsConst() {
			if b.val == 0 {
				return b
			}
			if b.val == mask(w) {
				return a
			}
		}
		if a == b {
			return a
		}
	case OBOr:
		if a.IsConst() {
			a, b = b, a
		}
		if b.IsConst() {
			if b.val == 0 {
				return a
			}
			if b.val == mask(w) {
				return b
			}
		}
		if a == b {
			return a
		}
	case OBXor:
		if a.IsConst() {
			a, b = b, a
		}
		if b.IsConst() && b.val == 0 {
			return a
		}
	case OShl, OLShr, OAShr:
		if b.IsConst() && b.val == 0 {
			return a
		}
	}
	return c.mk(op, w, []*Term{a, b}, 0, "", 0, 0)
}

// ---- canonical linear form of bvadd/bvsub/bvneg/(bvmul by constant) trees ----

type linForm struct {
	atoms map[*Term]uint64
	k     uint64
}

func (c *TermCtx) linAdd(lf *linForm, t *Term, coef uint64, depth int) {
	m := mask(t.sort)
	coef &= m
	if coef == 0 {
		return
	}
	if t.IsConst() {
		lf.k = (lf.k + coef*t.val) & m
		return
	}
	if depth < 24 && len(lf.atoms) < 64 {
		switch t.op {
		case OAdd:
			c.linAdd(lf, t.args[0], coef, depth+1)
			c.linAdd(lf, t.args[1], coef, depth+1)
			return
		case OSub:
			c.linAdd(lf, t.args[0], coef, depth+1)
			c.linAdd(lf, t.args[1], -coef, depth+1)
			return
		case ONeg:
			c.linAdd(lf, t.args[0], -coef, depth+1)
			return
		case OMul:
			if t.args[1].IsConst() {
				c.linAdd(lf, t.args[0], coef*t.args[1].val, depth+1)
				return
			}
		}
	}
	lf.atoms[t] = (lf.atoms[t] + coef) & m
	if lf.atoms[t] == 0 {
		delete(lf.atoms, t)
	}
}

func (c *TermCtx) linear(op Op, a, b *Term) *Term {
	w := a.sort
	m := mask(w)
	lf := &linForm{atoms: map[*Term]uint64{}}
	c.linAdd(lf, a, 1, 0)
	if op == OAdd {
		c.linAdd(lf, b, 1, 0)
	} else {
		c.linAdd(lf, b, m, 0)
	}
	atoms := make([]*Term, 0, len(lf.atoms))
	for t := range lf.atoms {
		atoms = append(atoms, t)
	}
	// canonical order: positive unit coefficients first, then by id
	for i := 1; i < len(atoms); i++ {
		for j := i; j > 0; j-- {
			x, y := atoms[j-1], atoms[j]
			px, py := lf.atoms[x] == 1, lf.atoms[y] == 1
			if (py && !px) || (px == py && y.id < x.id) {
				atoms[j-1], atoms[j] = y, x
			} else {
				break
			}
		}
	}
	var acc *Term
	for _, t := range atoms {
		co := lf.atoms[t]
		switch {
		case acc == nil && co == 1:
			acc = t
		case acc == nil && co == m:
			acc = c.mk(ONeg, w, []*Term{t}, 0, "", 0, 0)
		case acc == nil:
			acc = c.mk(OMul, w, []*Term{t, c.BV(int(w), co)}, 0, "", 0, 0)
		case co == 1:
			acc = c.mk(OAdd, w, []*Term{acc, t}, 0, "", 0, 0)
		case co == m:
			acc = c.mk(OSub, w, []*Term{acc, t}, 0, "", 0, 0)
		default:
			acc = c.mk(OAdd, w, []*Term{acc, c.mk(OMul, w, []*Term{t, c.BV(int(w), co)}, 0, "", 0, 0)}, 0, "", 0, 0)
		}
	}
	if acc == nil {
		return c.BV(int(w), lf.k)
	}
	if lf.k != 0 {
		acc = c.mk(OAdd, w, []*Term{acc, c.BV(int(w), lf.k)}, 0, "", 0, 0)
	}
	return acc
}

// narrow comparisons of zero-extended operands
func (c *TermCtx) narrowZ(a, b *Term) (*Term, *Term, bool, *Term) {
	if a.op == OZExt && b.op == OZExt && a.args[0].sort == b.args[0].sort {
		return a.args[0], b.args[0], true, nil
	}
	return a, b, false, nil
}

func (c *TermCtx) Cmp(op Op, a, b *Term) *Term {
	if a.sort != b.sort {
		panic(fmt.Sprintf("Cmp sort mismatch %v %v", a.sort, b.sort))
	}
	if op == OULT || op == OULE {
		if a.op == OZExt && b.op == OZExt && a.args[0].sort == b.args[0].sort {
			return c.Cmp(op, a.args[0], b.args[0])
		}
		if a.op == OZExt && b.IsConst() {
			iw := a.args[0].sort
			if b.val > mask(iw) {
				return c.Bool(true)
			}
			return c.Cmp(op, a.args[0], c.BV(int(iw), b.val))
		}
		if b.op == OZExt && a.IsConst() {
			iw := b.args[0].sort
			if a.val > mask(iw) {
				return c.Bool(false)
			}
			return c.Cmp(op, c.BV(int(iw), a.val), b.args[0])
		}
	}
	w := a.sort
	if a.IsConst() && b.IsConst() {
		switch op {
		case OULT:
			return c.Bool(a.val < b.val)
		case OULE:
			return c.Bool(a.val <= b.val)
		case OSLT:
			return c.Bool(sx(a.val, w) < sx(b.val, w))
		case OSLE:
			return c.Bool(sx(a.val, w) <= sx(b.val, w))
		}
	}
	if a == b {
		return c.Bool(op == OULE || op == OSLE)
	}
	if op == OULT && b.IsConst() && b.val == 0 {
		return c.Bool(false)
	}
	if op == OULE && a.IsConst() && a.val == 0 {
		return c.Bool(true)
	}
	return c.mk(op, SBool, []*Term{a, b}, 0, "", 0, 0)
}

func (c *TermCtx) BNot(a *Term) *Term {
	if a.IsConst() {
		return c.BV(int(a.sort), ^a.val)
	}
	if a.op == OBNot {
		return a.args[0]
	}
	return c.mk(OBNot, a.sort, []*Term{a}, 0, "", 0, 0)
}
func (c *TermCtx) Neg(a *Term) *Term {
	if a.IsConst() {
		return c.BV(int(a.sort), -a.val)
	}
	return c.mk(ONeg, a.sort, []*Term{a}, 0, "", 0, 0)
}

func (c *TermCtx) Extract(hi, lo int, a *Term) *Term {
	w := int(a.sort)
	if lo == 0 && hi == w-1 {
		return a
	}
	if hi >= w || lo < 0 || hi < lo {
		panic(fmt.Sprintf("bad extract %d %d of width %d", hi, lo, w))
	}
	nw := hi - lo + 1
	if a.IsConst() {
		return c.BV(nw, a.val>>uint(lo))
	}
	switch a.op {
	case OExtract:
		return c.Extract(hi+a.q, lo+a.q, a.args[0])
	case OConcat:
		lw := int(a.args[1].sort)
		if hi < lw {
			return c.Extract(hi, lo, a.args[1])
		}
		if lo >= lw {
			return c.Extract(hi-lw, lo-lw, a.args[0])
		}
	case OZExt:
		iw := int(a.args[0].sort)
		if hi < iw {
			return c.Extract(hi, lo, a.args[0])
		}
		if lo >= iw {
			return c.BV(nw, 0)
		}
	case OSExt:
		iw := int(a.args[0].sort)
		if hi < iw {
			return c.Extract(hi, lo, a.args[0])
		}
	case OIte:
		if a.args[1].IsConst() && a.args[2].IsConst() {
			return c.Ite(a.args[0], c.Extract(hi, lo, a.args[1]), c.Extract(hi, lo, a.args[2]))
		}
	case OBAnd, OBOr, OBXor:
		if a.args[1].IsConst() && nw <= 8 {
			return c.Bin(a.op, c.Extract(hi, lo, a.args[0]), c.Extract(hi, lo, a.args[1]))
		}
	case OAdd, OSub:
		if lo == 0 {
			return c.Bin(a.op, c.Extract(hi, 0, a.args[0]), c.Extract(hi, 0, a.args[1]))
		}
	case ONeg:
		if lo == 0 {
			return c.Neg(c.Extract(hi, 0, a.args[0]))
		}
	case OMul:
		if lo == 0 && a.args[1].IsConst() {
			return c.Bin(OMul, c.Extract(hi, 0, a.args[0]), c.Extract(hi, 0, a.args[1]))
		}
	}
	return c.mk(OExtract, Sort(nw), []*Term{a}, 0, "", hi, lo)
}

func (c *TermCtx) Concat(a, b *Term) *Term {
	nw := int(a.sort) + int(b.sort)
	if a.IsConst() && b.IsConst() && nw <= 64 {
		return c.BV(nw, a.val<<uint(b.sort)|b.val)
	}
	// concat(extract(h1,l1,x), extract(h2,l2,x)) with l1 == h2+1
	if a.op == OExtract && b.op == OExtract && a.args[0] == b.args[0] && a.q == b.p+1 {
		return c.Extract(a.p, b.q, a.args[0])
	}
	// concat(a, concat(extract.., rest)) : try merging a with head of b
	if a.op == OExtract && b.op == OConcat && b.args[0].op == OExtract && a.args[0] == b.args[0].args[0] && a.q == b.args[0].p+1 {
		return c.Concat(c.Extract(a.p, b.args[0].q, a.args[0]), b.args[1])
	}
	if a.IsConst() && a.val == 0 {
		return c.ZExt(nw, b)
	}
	return c.mk(OConcat, Sort(nw), []*Term{a, b}, 0, "", 0, 0)
}

func (c *TermCtx) ZExt(nw int, a *Term) *Term {
	w := int(a.sort)
	if nw == w {
		return a
	}
	if nw < w {
		return c.Extract(nw-1, 0, a)
	}
	if a.IsConst() {
		return c.BV(nw, a.val)
	}
	if a.op == OZExt {
		return c.ZExt(nw, a.args[0])
	}
	return c.mk(OZExt, Sort(nw), []*Term{a}, 0, "", nw-w, 0)
}
func (c *TermCtx) SExt(nw int, a *Term) *Term {
	w := int(a.sort)
	if nw == w {
		return a
	}
	if nw < w {
		return c.Extract(nw-1, 0, a)
	}
	if a.IsConst() {
		return c.BV(nw, uint64(sx(a.val, a.sort)))
	}
	return c.mk(OSExt, Sort(nw), []*Term{a}, 0, "", nw-w, 0)
}

func (c *TermCtx) Select(arr, idx *Term) *Term {
	for arr.op == OStore {
		si := arr.args[1]
		if si == idx {
			return arr.args[2]
		}
		if si.IsConst() && idx.IsConst() {
			arr = arr.args[0]
			continue
		}
		break
	}
	if arr.op == OConstArr {
		return c.BV(8, 0)
	}
	return c.mk(OSelect, 8, []*Term{arr, idx}, 0, "", 0, 0)
}
func (c *TermCtx) Store(arr, idx, v *Term) *Term {
	return c.mk(OStore, SArr, []*Term{arr, idx, v}, 0, "", 0, 0)
}

// ---------- floating point (values carried as IEEE bit patterns) ----------

func fbits2f(w Sort, v uint64) float64 {
	if w == 32 {
		return float64(math.Float32frombits(uint32(v)))
	}
	return math.Float64frombits(v)
}
func f2bits(w int, f float64) uint64 {
	if w == 32 {
		return uint64(math.Float32bits(float32(f)))
	}
	return math.Float64bits(f)
}

func (c *TermCtx) FPCmp(op Op, a, b *Term) *Term {
	if a.IsConst() && b.IsConst() {
		x, y := fbits2f(a.sort, a.val), fbits2f(b.sort, b.val)
		switch op {
		case OFPLt:
			return c.Bool(x < y)
		case OFPLe:
			return c.Bool(x <= y)
		case OFPEq:
			return c.Bool(x == y)
		}
	}
	return c.mk(op, SBool, []*Term{a, b}, 0, "", 0, 0)
}
func (c *TermCtx) FPIsNaN(a *Term) *Term {
	if a.IsConst() {
		return c.Bool(math.IsNaN(fbits2f(a.sort, a.val)))
	}
	return c.mk(OFPIsNaN, SBool, []*Term{a}, 0, "", 0, 0)
}
func (c *TermCtx) FPBin(op Op, a, b *Term) *Term {
	if a.IsConst() && b.IsConst() {
		w := int(a.sort)
		if w == 32 {
			x, y := math.Float32frombits(uint32(a.val)), math.Float32frombits(uint32(b.val))
			var r float32
			switch op {
			case OFPAdd:
				r = x + y
			case OFPSub:
				r = x - y
			case OFPMul:
				r = x * y
			case OFPDiv:
				r = x / y
			}
			return c.BV(32, uint64(math.Float32bits(r)))
		}
		x, y := math.Float64frombits(a.val), math.Float64frombits(b.val)
		var r float64
		switch op {
		case OFPAdd:
			r = x + y
		case OFPSub:
			r = x - y
		case OFPMul:
			r = x * y
		case OFPDiv:
			r = x / y
		}
		return c.BV(64, math.Float64bits(r))
	}
	return c.mk(op, a.sort, []*Term{a, b}, 0, "", 0, 0)
}
func (c *TermCtx) FPNeg(a *Term) *Term {
	w := int(a.sort)
	return c.Bin(OBXor, a, c.BV(w, uint64(1)<<uint(w-1)))
}
func (c *TermCtx) FPConv(nw int, a *Term) *Term {
	if int(a.sort) == nw {
		return a
	}
	if a.IsConst() {
		return c.BV(nw, f2bits(nw, fbits2f(a.sort, a.val)))
	}
	return c.mk(OFPConv, Sort(nw), []*Term{a}, 0, "", nw, 0)
}
func (c *TermCtx) FPToInt(signed bool, nw int, a *Term) *Term {
	if a.IsConst() {
		f := fbits2f(a.sort, a.val)
		if signed {
			return c.BV(nw, uint64(int64(f)))
		}
		return c.BV(nw, uint64(f))
	}
	op := OFPToUBV
	if signed {
		op = OFPToSBV
	}
	return c.mk(op, Sort(nw), []*Term{a}, 0, "", nw, 0)
}
func (c *TermCtx) IntToFP(signed bool, nw int, a *Term) *Term {
	if a.IsConst() {
		if signed {
			return c.BV(nw, f2bits(nw, float64(a.Int())))
		}
		return c.BV(nw, f2bits(nw, float64(a.val)))
	}
	op := OUBVToFP
	if signed {
		op = OSBVToFP
	}
	return c.mk(op, Sort(nw), []*Term{a}, 0, "", nw, 0)
}

func (c *TermCtx) UF(name string, ret Sort, args ...*Term) *Term {
	if _, ok := c.ufs[name]; !ok {
		var sb strings.Builder
		fmt.Fprintf(&sb, "(declare-fun %s (", name)
		for _, a := range args {
			sb.WriteString(a.sort.String())
			sb.WriteString(" ")
		}
		fmt.Fprintf(&sb, ") %s)", ret)
		c.ufs[name] = sb.String()
	}
	return c.mk(OUF, ret, args, 0, name, 0, 0)
}

// ------------- printing -------------

func fpSort(w Sort) string {
	if w == 32 {
		return "(_ to_fp 8 24)"
	}
	return "(_ to_fp 11 53)"
}

func constStr(t *Term) string {
	if t.sort == SBool {
		if t.val == 1 {
			return "true"
		}
		return "false"
	}
	w := int(t.sort)
	if w%4 == 0 {
		return fmt.Sprintf("#x%0*x", w/4, t.val)
	}
	return fmt.Sprintf("#b%0*b", w, t.val)
}

// ref returns how a term is referenced inside another definition.
func ref(t *Term) string {
	switch t.op {
	case OConst:
		return constStr(t)
	case OVar:
		return t.name
	case OConstArr:
		return "((as const (Array (_ BitVec 32) (_ BitVec 8))) #x00)"
	}
	return fmt.Sprintf("t%d", t.id)
}

// body prints the definition body of a compound term, referencing args by name.
func body(t *Term) string {
	a := func(i int) string { return ref(t.args[i]) }
	fp := func(i int) string { return "(" + fpSort(t.args[i].sort) + " " + a(i) + ")" }
	switch t.op {
	case ONot, OBNot, ONeg:
		return fmt.Sprintf("(%s %s)", opNames[t.op], a(0))
	case OIte, OStore:
		return fmt.Sprintf("(%s %s %s %s)", opNames[t.op], a(0), a(1), a(2))
	case OExtract:
		return fmt.Sprintf("((_ extract %d %d) %s)", t.p, t.q, a(0))
	case OZExt:
		return fmt.Sprintf("((_ zero_extend %d) %s)", t.p, a(0))
	case OSExt:
		return fmt.Sprintf("((_ sign_extend %d) %s)", t.p, a(0))
	case OFPLt:
		return fmt.Sprintf("(fp.lt %s %s)", fp(0), fp(1))
	case OFPLe:
		return fmt.Sprintf("(fp.leq %s %s)", fp(0), fp(1))
	case OFPEq:
		return fmt.Sprintf("(fp.eq %s %s)", fp(0), fp(1))
	case OFPIsNaN:
		return fmt.Sprintf("(fp.isNaN %s)", fp(0))
	case OFPAdd, OFPSub, OFPMul, OFPDiv:
		nm := map[Op]string{OFPAdd: "fp.add", OFPSub: "fp.sub", OFPMul: "fp.mul", OFPDiv: "fp.div"}[t.op]
		// result as bits: no fp.to_ieee_bv in all solvers; use a fresh-free encoding via to_ieee_bv (z3 supports)
		return fmt.Sprintf("(fp.to_ieee_bv (%s RNE %s %s))", nm, fp(0), fp(1))
	case OFPConv:
		return fmt.Sprintf("(fp.to_ieee_bv (%s RNE %s))", fpSort(Sort(t.p)), fp(0))
	case OFPToSBV:
		return fmt.Sprintf("((_ fp.to_sbv %d) RTZ %s)", t.p, fp(0))
	case OFPToUBV:
		return fmt.Sprintf("((_ fp.to_ubv %d) RTZ %s)", t.p, fp(0))
	case OSBVToFP:
		return fmt.Sprintf("(fp.to_ieee_bv (%s RNE %s))", fpSort(Sort(t.p)), a(0))
	case OUBVToFP:
		es := "(_ to_fp_unsigned 8 24)"
		if t.p == 64 {
			es = "(_ to_fp_unsigned 11 53)"
		}
		return fmt.Sprintf("(fp.to_ieee_bv (%s RNE %s))", es, a(0))
	case OUF:
		var sb strings.Builder
		sb.WriteString("(" + t.name)
		for i := range t.args {
			sb.WriteString(" " + a(i))
		}
		sb.WriteString(")")
		return sb.String()
	}
	return fmt.Sprintf("(%s %s %s)", opNames[t.op], a(0), a(1))
}

func isLeaf(t *Term) bool { return t.op == OConst || t.op == OVar || t.op == OConstArr }

// Short human-readable rendering (for debugging / evidence samples)
func (t *Term) String() string {
	if t.op == OConst {
		if t.sort == SBool {
			return constStr(t)
		}
		return fmt.Sprintf("%d", t.val)
	}
	if t.op == OVar {
		return t.name
	}
	return fmt.Sprintf("t%d<%s>", t.id, opNames[t.op])
}
