package main

// Deterministic in-memory model of the os file API used by DiskManagerImpl, with an I/O trace
// from which any prefix (plus a torn last write) can be materialised as a crash image.

import (
	"fmt"
	"go/types"
	"strings"

	"golang.org/x/tools/go/ssa"
)

type fileObj struct {
	name   string
	data   *ByteArr
	size   *Term
	exists bool
}

type fileHandle struct {
	f      *fileObj
	pos    *Term
	closed bool
}

type fileInfoObj struct {
	size *Term
	name string
}

type traceEvt struct {
	Kind   string // write | remove | create | truncate
	File   string
	off, n *Term
	src    *layer
	srcOff *Term
}

type crashImage struct {
	files map[string]*fileObj // snapshot (layers frozen)
}

type fileModel struct {
	files map[string]*fileObj
	trace []traceEvt
	open  int
	base  map[string]*fileObj // contents when this model started (after a crash): trace replays start from here
}

func newFileModel() *fileModel { return &fileModel{files: map[string]*fileObj{}} }

var fileInfoType = types.NewNamed(types.NewTypeName(0, nil, "vfFileInfo", nil), types.NewStruct(nil, nil), nil)

func (fi *fileInfoObj) method(name string) NativeFn {
	switch name {
	case "Size":
		return func(ex *Exec, fr *frame, args []Value) Value { return fi.size }
	case "Name":
		return func(ex *Exec, fr *frame, args []Value) Value { return Str{s: fi.name} }
	case "IsDir":
		return func(ex *Exec, fr *frame, args []Value) Value { return ex.tc.Bool(false) }
	}
	return func(ex *Exec, fr *frame, args []Value) Value {
		ex.unsupported("FileInfo." + name)
		return nil
	}
}

func (ex *Exec) fsGet(name string, create bool) *fileObj {
	f := ex.fs.files[name]
	if f == nil {
		f = &fileObj{name: name}
		ex.fs.files[name] = f
	}
	if !f.exists && create {
		f.exists = true
		f.data = ex.newByteArrZero(ex.i64(1 << 40))
		f.size = ex.i64(0)
		ex.fs.trace = append(ex.fs.trace, traceEvt{Kind: "create", File: name})
	}
	return f
}

func (ex *Exec) handleOf(v Value) *fileHandle {
	c, ok := v.(*Value)
	if !ok || c == nil {
		ex.goPanic("nil *os.File")
	}
	h, ok := (*c).(*fileHandle)
	if !ok {
		ex.unsupported("os.File value is not a modelled handle")
	}
	return h
}

func (ex *Exec) fsWrite(f *fileObj, off *Term, b ByteSlice) {
	tc := ex.tc
	if b.arr == nil {
		return
	}
	ex.fs.trace = append(ex.fs.trace, traceEvt{Kind: "write", File: f.name, off: off, n: b.len, src: b.arr.snapshot(), srcOff: b.off})
	f.data.Move(off, b.arr, b.off, b.len)
	end := tc.Bin(OAdd, off, b.len)
	f.size = tc.Ite(tc.Cmp(OULT, f.size, end), end, f.size)
}

// materialise the state after the first k trace events; event k (if a write) is applied for its first
// `tear` bytes only.  tear may be symbolic.
func (ex *Exec) fsCrash(k int, tear *Term) {
	tc := ex.tc
	old := ex.fs
	nf := newFileModel()
	for name, f := range old.base {
		if f.exists {
			nf.files[name] = &fileObj{name: name, data: &ByteArr{top: f.data.snapshot(), size: f.data.size, ex: ex}, size: f.size, exists: true}
		}
	}
	ex.fs = nf
	apply := func(e traceEvt, n *Term) {
		switch e.Kind {
		case "create":
			f := ex.fsGetNoTrace(e.File)
			f.exists = true
			f.data = ex.newByteArrZero(ex.i64(1 << 40))
			f.size = ex.i64(0)
		case "remove":
			f := ex.fsGetNoTrace(e.File)
			f.exists = false
		case "write":
			f := ex.fsGetNoTrace(e.File)
			src := &ByteArr{top: e.src, size: ex.i64(1 << 40), ex: ex}
			f.data.Move(e.off, src, e.srcOff, n)
			end := tc.Bin(OAdd, e.off, n)
			f.size = tc.Ite(tc.Cmp(OULT, f.size, end), end, f.size)
		}
	}
	for i := 0; i < k && i < len(old.trace); i++ {
		apply(old.trace[i], old.trace[i].n)
	}
	if k < len(old.trace) && tear != nil && old.trace[k].Kind == "write" {
		e := old.trace[k]
		n := tc.Ite(tc.Cmp(OULT, tear, e.n), tear, e.n)
		apply(e, n)
	}
	// remember the image for native replay
	img := crashImage{files: map[string]*fileObj{}}
	for name, f := range nf.files {
		if f.exists {
			img.files[name] = &fileObj{name: name, data: &ByteArr{top: f.data.snapshot(), size: f.data.size, ex: ex}, size: f.size, exists: true}
		}
	}
	ex.crashImages = append(ex.crashImages, img)
	ex.fsSnapshotBase()
	ex.recordInput(fmt.Sprintf("crash_%d", len(ex.crashImages)-1), "crash", len(ex.crashImages)-1, nil)
}

// dumpCrashImages evaluates the crash images under the solver's current model.
func (ex *Exec) dumpCrashImages() []map[string][]byte {
	ex.noSimp = true // no solver queries here: the current model must stay valid
	defer func() { ex.noSimp = false }()
	var out []map[string][]byte
	for _, img := range ex.crashImages {
		m := map[string][]byte{}
		for name, f := range img.files {
			sz, ok := ex.solver.EvalTerm(f.size)
			if !ok || sz > 1<<22 {
				continue
			}
			bs := make([]byte, sz)
			var symIdx []int
			var symTerms []*Term
			for i := uint64(0); i < sz; i++ {
				t := f.data.Read(ex.tc.BV(64, i))
				if t.IsConst() {
					bs[i] = byte(t.val)
				} else {
					symIdx = append(symIdx, int(i))
					symTerms = append(symTerms, t)
				}
			}
			for off := 0; off < len(symTerms); off += 256 {
				end := off + 256
				if end > len(symTerms) {
					end = len(symTerms)
				}
				vals := ex.solver.Values(symTerms[off:end])
				for j := off; j < end; j++ {
					bs[symIdx[j]] = byte(vals[ref(symTerms[j])])
				}
			}
			m[name] = bs
		}
		out = append(out, m)
	}
	return out
}

func (ex *Exec) fsGetNoTrace(name string) *fileObj {
	f := ex.fs.files[name]
	if f == nil {
		f = &fileObj{name: name}
		ex.fs.files[name] = f
	}
	return f
}

func (ex *Exec) fsSnapshotBase() {
	ex.fs.base = map[string]*fileObj{}
	for name, f := range ex.fs.files {
		if f.exists {
			ex.fs.base[name] = &fileObj{name: name, data: &ByteArr{top: f.data.snapshot(), size: f.data.size, ex: ex}, size: f.size, exists: true}
		}
	}
}

func registerFileIntrinsics(reg func(string, intrinsic)) {
	const oCreate = 0x40
	const oTrunc = 0x200
	const oAppend = 0x400
	reg("os.OpenFile", func(ex *Exec, fr *frame, fn *ssa.Function, args []Value) Value {
		name := ex.concStrArg(args[0], "os.OpenFile")
		flag := int(ex.concretize(args[1].(*Term), "OpenFile flag"))
		f := ex.fsGet(name, flag&oCreate != 0)
		if !f.exists {
			return Tuple{(*Value)(nil), ex.errorValue("open " + name + ": no such file or directory")}
		}
		if flag&oTrunc != 0 {
			f.data = ex.newByteArrZero(ex.i64(1 << 40))
			f.size = ex.i64(0)
			ex.fs.trace = append(ex.fs.trace, traceEvt{Kind: "remove", File: name}, traceEvt{Kind: "create", File: name})
		}
		h := &fileHandle{f: f, pos: ex.i64(0)}
		if flag&oAppend != 0 {
			h.pos = f.size
		}
		c := new(Value)
		*c = h
		return Tuple{c, nilErr()}
	})
	reg("os.Stat", func(ex *Exec, fr *frame, fn *ssa.Function, args []Value) Value {
		name := ex.concStrArg(args[0], "os.Stat")
		f := ex.fs.files[name]
		if f == nil || !f.exists {
			return Tuple{Iface{}, ex.errorValue("stat " + name + ": no such file or directory")}
		}
		return Tuple{Iface{t: fileInfoType, v: &fileInfoObj{size: f.size, name: name}}, nilErr()}
	})
	reg("os.Remove", func(ex *Exec, fr *frame, fn *ssa.Function, args []Value) Value {
		name := ex.concStrArg(args[0], "os.Remove")
		f := ex.fs.files[name]
		if f == nil || !f.exists {
			return ex.errorValue("remove " + name + ": no such file or directory")
		}
		f.exists = false
		ex.fs.trace = append(ex.fs.trace, traceEvt{Kind: "remove", File: name})
		return nilErr()
	})
	reg("(*os.File).Stat", func(ex *Exec, fr *frame, fn *ssa.Function, args []Value) Value {
		h := ex.handleOf(args[0])
		return Tuple{Iface{t: fileInfoType, v: &fileInfoObj{size: h.f.size, name: h.f.name}}, nilErr()}
	})
	reg("(*os.File).Name", func(ex *Exec, fr *frame, fn *ssa.Function, args []Value) Value {
		return Str{s: ex.handleOf(args[0]).f.name}
	})
	reg("(*os.File).Close", func(ex *Exec, fr *frame, fn *ssa.Function, args []Value) Value {
		h := ex.handleOf(args[0])
		if h.closed {
			return ex.errorValue("close: file already closed")
		}
		h.closed = true
		return nilErr()
	})
	reg("(*os.File).Sync", func(ex *Exec, fr *frame, fn *ssa.Function, args []Value) Value { return nilErr() })
	reg("(*os.File).Seek", func(ex *Exec, fr *frame, fn *ssa.Function, args []Value) Value {
		h := ex.handleOf(args[0])
		if h.closed {
			return Tuple{ex.i64(0), ex.errorValue("seek: file already closed")}
		}
		off := args[1].(*Term)
		switch ex.concretize(args[2].(*Term), "Seek whence") {
		case 0:
			h.pos = off
		case 1:
			h.pos = ex.tc.Bin(OAdd, h.pos, off)
		case 2:
			h.pos = ex.tc.Bin(OAdd, h.f.size, off)
		}
		if !ex.branch(ex.tc.Cmp(OSLE, ex.i64(0), h.pos)) {
			h.pos = ex.i64(0)
			return Tuple{ex.i64(0), ex.errorValue("seek: invalid argument")}
		}
		return Tuple{h.pos, nilErr()}
	})
	reg("(*os.File).Write", func(ex *Exec, fr *frame, fn *ssa.Function, args []Value) Value {
		h := ex.handleOf(args[0])
		if h.closed {
			return Tuple{ex.i64(0), ex.errorValue("write: file already closed")}
		}
		b := args[1].(ByteSlice)
		ex.fsWrite(h.f, h.pos, b)
		h.pos = ex.tc.Bin(OAdd, h.pos, b.len)
		return Tuple{b.len, nilErr()}
	})
	reg("(*os.File).WriteAt", func(ex *Exec, fr *frame, fn *ssa.Function, args []Value) Value {
		h := ex.handleOf(args[0])
		b := args[1].(ByteSlice)
		ex.fsWrite(h.f, args[2].(*Term), b)
		return Tuple{b.len, nilErr()}
	})
	readAt := func(ex *Exec, h *fileHandle, b ByteSlice, pos *Term) (*Term, bool) {
		tc := ex.tc
		if ex.branch(tc.Eq(b.len, ex.i64(0))) {
			return ex.i64(0), false
		}
		if ex.branch(tc.Cmp(OSLE, h.f.size, pos)) {
			return ex.i64(0), true
		}
		avail := tc.Bin(OSub, h.f.size, pos)
		n := tc.Ite(tc.Cmp(OULT, b.len, avail), b.len, avail)
		b.arr.Move(b.off, h.f.data, pos, n)
		return n, false
	}
	reg("(*os.File).Read", func(ex *Exec, fr *frame, fn *ssa.Function, args []Value) Value {
		h := ex.handleOf(args[0])
		if h.closed {
			return Tuple{ex.i64(0), ex.errorValue("read: file already closed")}
		}
		n, eof := readAt(ex, h, args[1].(ByteSlice), h.pos)
		if eof {
			return Tuple{n, ex.stdGlobal("io", "EOF")}
		}
		h.pos = ex.tc.Bin(OAdd, h.pos, n)
		return Tuple{n, nilErr()}
	})
	reg("(*os.File).ReadAt", func(ex *Exec, fr *frame, fn *ssa.Function, args []Value) Value {
		h := ex.handleOf(args[0])
		n, eof := readAt(ex, h, args[1].(ByteSlice), args[2].(*Term))
		if eof {
			return Tuple{n, ex.stdGlobal("io", "EOF")}
		}
		return Tuple{n, nilErr()}
	})
	reg("(*os.File).Truncate", func(ex *Exec, fr *frame, fn *ssa.Function, args []Value) Value {
		ex.unsupported("os.File.Truncate")
		return nil
	})

	// ---- vf file-system helpers ----
	reg(vfPkg+".FsTraceLen", func(ex *Exec, fr *frame, fn *ssa.Function, args []Value) Value {
		n := len(ex.fs.trace)
		ex.recordInput(fmt.Sprintf("tracelen_%d", len(ex.inputs)), "tracelen", n, nil)
		return ex.i64(uint64(n))
	})
	reg(vfPkg+".FsTraceKind", func(ex *Exec, fr *frame, fn *ssa.Function, args []Value) Value {
		k := int(ex.concretize(args[0].(*Term), "FsTraceKind index"))
		e := ex.fs.trace[k]
		return Str{s: e.Kind + ":" + e.File}
	})
	reg(vfPkg+".FsTraceIsWrite", func(ex *Exec, fr *frame, fn *ssa.Function, args []Value) Value {
		k := int(ex.concretize(args[0].(*Term), "FsTraceIsWrite index"))
		suffix := ex.concStrArg(args[1], "FsTraceIsWrite")
		if k < 0 || k >= len(ex.fs.trace) {
			return ex.tc.Bool(false)
		}
		e := ex.fs.trace[k]
		return ex.tc.Bool(e.Kind == "write" && strings.HasSuffix(e.File, suffix))
	})
	reg(vfPkg+".FsTraceWriteLen", func(ex *Exec, fr *frame, fn *ssa.Function, args []Value) Value {
		k := int(ex.concretize(args[0].(*Term), "FsTraceWriteLen index"))
		e := ex.fs.trace[k]
		if e.n == nil {
			return ex.i64(0)
		}
		return e.n
	})
	reg(vfPkg+".FsCrash", func(ex *Exec, fr *frame, fn *ssa.Function, args []Value) Value {
		k := int(ex.concretize(args[0].(*Term), "FsCrash prefix"))
		ex.fsCrash(k, args[1].(*Term))
		ex.mutexes = map[interface{}]*mstate{}
		return nil
	})
	reg(vfPkg+".FsFileSize", func(ex *Exec, fr *frame, fn *ssa.Function, args []Value) Value {
		name := ex.concStrArg(args[0], "FsFileSize")
		f := ex.fs.files[name]
		if f == nil || !f.exists {
			return ex.tc.BV(64, ^uint64(0))
		}
		return f.size
	})
	_ = fmt.Sprintf
}
