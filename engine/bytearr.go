package main

// ByteArr: lazily represented byte array with term-valued indices.
// A persistent stack of layers: concrete-index chunk maps, symbolic stores, symbolic memmoves,
// on top of a base (all zero, or a declared SMT array).

const chunkSz = 64

type chunk [chunkSz]*Term

type layerKind uint8

const (
	lConc layerKind = iota
	lStore
	lMove
	lBaseZero
	lBaseArr
)

type layer struct {
	below  *layer
	kind   layerKind
	frozen bool
	chunks map[uint32]*chunk // lConc
	nset   int
	idx    *Term // lStore
	val    *Term
	dst    *Term // lMove: bytes [dst,dst+n) come from src at srcOff+(i-dst)
	n      *Term
	src    *layer
	srcOff *Term
	arr    *Term // lBaseArr
	// caches
	arrTerm  *Term
	arrNoArr bool
	depth    int
}

type ByteArr struct {
	top  *layer
	size *Term // BV64 capacity of the backing store
	ex   *Exec
	id   int
}

func (ex *Exec) newByteArrZero(size *Term) *ByteArr {
	ex.arrSeq++
	return &ByteArr{top: &layer{kind: lBaseZero, frozen: true}, size: size, ex: ex, id: ex.arrSeq}
}

func (ex *Exec) newByteArrSym(name string, size int) *ByteArr {
	ex.arrSeq++
	v := ex.tc.Var(name, SArr)
	return &ByteArr{top: &layer{kind: lBaseArr, arr: v, frozen: true}, size: ex.tc.BV(64, uint64(size)), ex: ex, id: ex.arrSeq}
}

// snapshot freezes the current contents and returns them as an immutable layer.
func (b *ByteArr) snapshot() *layer {
	b.top.frozen = true
	return b.top
}

func (b *ByteArr) clone() *ByteArr {
	b.ex.arrSeq++
	return &ByteArr{top: b.snapshot(), size: b.size, ex: b.ex, id: b.ex.arrSeq}
}

func (b *ByteArr) concTop() *layer {
	if b.top.kind == lConc && !b.top.frozen {
		return b.top
	}
	l := &layer{below: b.top, kind: lConc, chunks: map[uint32]*chunk{}, depth: b.top.depth + 1}
	b.top = l
	return l
}

// idx terms are BV64 throughout (Go int); SMT arrays are indexed by BV32.
func (b *ByteArr) Write(idx *Term, v *Term) {
	if v.sort != 8 {
		panic("ByteArr.Write: not a byte")
	}
	if idx.IsConst() {
		l := b.concTop()
		i := uint32(idx.val)
		ch := l.chunks[i/chunkSz]
		if ch == nil {
			ch = new(chunk)
			l.chunks[i/chunkSz] = ch
		}
		if ch[i%chunkSz] == nil {
			l.nset++
		}
		ch[i%chunkSz] = v
		return
	}
	b.top.frozen = true
	b.top = &layer{below: b.top, kind: lStore, idx: idx, val: v, frozen: true, depth: b.top.depth + 1}
}

func (b *ByteArr) Read(idx *Term) *Term {
	return b.ex.readLayer(b.top, idx)
}

// canArr: the layer stack below (inclusive) can be expressed as one SMT array term.
func (l *layer) canArr() bool {
	for x := l; x != nil; x = x.below {
		if x.kind == lMove {
			return false
		}
	}
	return true
}

func (ex *Exec) layerArrTerm(l *layer) *Term {
	if l.arrTerm != nil && (l.frozen) {
		return l.arrTerm
	}
	tc := ex.tc
	var t *Term
	switch l.kind {
	case lBaseZero:
		t = tc.ConstArr()
	case lBaseArr:
		t = l.arr
	case lStore:
		t = tc.Store(ex.layerArrTerm(l.below), tc.Extract(31, 0, l.idx), l.val)
	case lConc:
		t = ex.layerArrTerm(l.below)
		// deterministic order
		keys := make([]uint32, 0, len(l.chunks))
		for k := range l.chunks {
			keys = append(keys, k)
		}
		sortU32(keys)
		for _, k := range keys {
			ch := l.chunks[k]
			for j := 0; j < chunkSz; j++ {
				if ch[j] != nil {
					t = tc.Store(t, tc.BV(32, uint64(k*chunkSz+uint32(j))), ch[j])
				}
			}
		}
	default:
		panic("layerArrTerm on move layer")
	}
	if l.frozen {
		l.arrTerm = t
	}
	return t
}

func sortU32(a []uint32) {
	for i := 1; i < len(a); i++ {
		for j := i; j > 0 && a[j-1] > a[j]; j-- {
			a[j-1], a[j] = a[j], a[j-1]
		}
	}
}

func (ex *Exec) readLayer(l *layer, idx *Term) *Term {
	tc := ex.tc
	if idx.IsConst() {
		i := uint32(idx.val)
		for x := l; x != nil; x = x.below {
			switch x.kind {
			case lConc:
				if ch := x.chunks[i/chunkSz]; ch != nil && ch[i%chunkSz] != nil {
					return ch[i%chunkSz]
				}
			case lStore:
				c := tc.Eq(x.idx, idx)
				if c.IsTrue() {
					return x.val
				}
				if !c.IsFalse() {
					return tc.Ite(c, x.val, ex.readLayer(x.below, idx))
				}
			case lMove:
				in := tc.And(tc.Cmp(OULE, x.dst, idx), tc.Cmp(OULT, idx, tc.Bin(OAdd, x.dst, x.n)))
				if in.IsFalse() {
					continue
				}
				sv := ex.readLayer(x.src, tc.Bin(OAdd, x.srcOff, tc.Bin(OSub, idx, x.dst)))
				if in.IsTrue() {
					return sv
				}
				return tc.Ite(in, sv, ex.readLayer(x.below, idx))
			case lBaseZero:
				return tc.BV(8, 0)
			case lBaseArr:
				return tc.Select(x.arr, tc.BV(32, uint64(i)))
			}
		}
		panic("readLayer: no base")
	}
	// symbolic index
	if l.canArr() {
		l.frozen = true
		return tc.Select(ex.layerArrTerm(l), tc.Extract(31, 0, idx))
	}
	switch l.kind {
	case lConc:
		r := ex.readLayer(l.below, idx)
		keys := make([]uint32, 0, len(l.chunks))
		for k := range l.chunks {
			keys = append(keys, k)
		}
		sortU32(keys)
		for _, k := range keys {
			ch := l.chunks[k]
			for j := 0; j < chunkSz; j++ {
				if ch[j] != nil {
					r = tc.Ite(tc.Eq(idx, tc.BV(64, uint64(k*chunkSz+uint32(j)))), ch[j], r)
				}
			}
		}
		return r
	case lStore:
		return tc.Ite(tc.Eq(l.idx, idx), l.val, ex.readLayer(l.below, idx))
	case lMove:
		in := tc.And(tc.Cmp(OULE, l.dst, idx), tc.Cmp(OULT, idx, tc.Bin(OAdd, l.dst, l.n)))
		sv := ex.readLayer(l.src, tc.Bin(OAdd, l.srcOff, tc.Bin(OSub, idx, l.dst)))
		return tc.Ite(in, sv, ex.readLayer(l.below, idx))
	}
	panic("readLayer: unreachable")
}

// Move copies n bytes from src[srcOff...] into b[dst...] with memmove semantics.
func (b *ByteArr) Move(dst *Term, src *ByteArr, srcOff *Term, n *Term) {
	tc := b.ex.tc
	if n.IsConst() && dst.IsConst() && srcOff.IsConst() {
		cnt := int(n.val)
		if cnt == 0 {
			return
		}
		tmp := make([]*Term, cnt)
		for i := 0; i < cnt; i++ {
			tmp[i] = src.Read(tc.BV(64, srcOff.val+uint64(i)))
		}
		for i := 0; i < cnt; i++ {
			b.Write(tc.BV(64, dst.val+uint64(i)), tmp[i])
		}
		return
	}
	if n.IsConst() && n.val <= 16 {
		// small fixed-size copy at symbolic offsets: element-wise
		cnt := int(n.val)
		tmp := make([]*Term, cnt)
		for i := 0; i < cnt; i++ {
			tmp[i] = src.Read(tc.Bin(OAdd, srcOff, tc.BV(64, uint64(i))))
		}
		for i := 0; i < cnt; i++ {
			b.Write(tc.Bin(OAdd, dst, tc.BV(64, uint64(i))), tmp[i])
		}
		return
	}
	sl := src.snapshot()
	b.top.frozen = true
	b.top = &layer{below: b.top, kind: lMove, dst: dst, n: n, src: sl, srcOff: srcOff, frozen: true, depth: b.top.depth + 1}
}
