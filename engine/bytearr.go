package main

// ByteArr: lazily represented byte array with term-valued indices.
// A persistent stack of layers: concrete-index chunk maps, symbolic stores, symbolic memmoves,
// on top of a base (all zero, or a declared SMT array).

const chunkSz = 64

type chunk [chunkSz]*Term

type layerKind uint8

const (
	lConc layerKind = iota
	lStore
	lMove
	lBaseZero
	lBaseArr
)

type layer struct {
	below  *layer
	kind   layerKind
	frozen bool
	chunks map[uint32]*chunk // lConc
	nset   int
	idx    *Term // lStore
	val    *Term
	dst    *Term // lMove: bytes [dst,dst+n) come from src at srcOff+(i-dst)
	n      *Term
	src    *layer
	srcOff *Term
	arr    *Term // lBaseArr
	// caches
	arrTerm  *Term
	ownArr   *Term
	runCache [][2]uint32
	arrSize  *Term
	arrNoArr bool
	depth    int
}

type ByteArr struct {
	top  *layer
	size *Term // BV64 capacity of the backing store
	ex   *Exec
	id   int
}

func (ex *Exec) newByteArrZero(size *Term) *ByteArr {
	ex.arrSeq++
	return &ByteArr{top: &layer{kind: lBaseZero, frozen: true}, size: size, ex: ex, id: ex.arrSeq}
}

func (ex *Exec) newByteArrSym(name string, size int) *ByteArr {
	ex.arrSeq++
	v := ex.tc.Var(name, SArr)
	return &ByteArr{top: &layer{kind: lBaseArr, arr: v, frozen: true}, size: ex.tc.BV(64, uint64(size)), ex: ex, id: ex.arrSeq}
}

// snapshot freezes the current contents and returns them as an immutable layer.
func (b *ByteArr) snapshot() *layer {
	b.top.frozen = true
	return b.top
}

func (b *ByteArr) clone() *ByteArr {
	b.ex.arrSeq++
	return &ByteArr{top: b.snapshot(), size: b.size, ex: b.ex, id: b.ex.arrSeq}
}

func (b *ByteArr) concTop() *layer {
	if b.top.kind == lConc && !b.top.frozen {
		return b.top
	}
	l := &layer{below: b.top, kind: lConc, chunks: map[uint32]*chunk{}, depth: b.top.depth + 1}
	b.top = l
	return l
}

// idx terms are BV64 throughout (Go int); SMT arrays are indexed by BV32.
func (b *ByteArr) Write(idx *Term, v *Term) {
	if v.sort != 8 {
		panic("ByteArr.Write: not a byte")
	}
	if idx.IsConst() {
		l := b.concTop()
		i := uint32(idx.val)
		ch := l.chunks[i/chunkSz]
		if ch == nil {
			ch = new(chunk)
			l.chunks[i/chunkSz] = ch
		}
		if ch[i%chunkSz] == nil {
			l.nset++
		}
		ch[i%chunkSz] = v
		return
	}
	b.top.frozen = true
	b.top = &layer{below: b.top, kind: lStore, idx: idx, val: v, frozen: true, depth: b.top.depth + 1}
}

func (b *ByteArr) Read(idx *Term) *Term {
	if !idx.IsConst() && b.top.canArr() {
		b.top.frozen = true
		return b.ex.tc.Select(b.ex.layerArrTerm(b.top, b.size), b.ex.tc.Extract(31, 0, idx))
	}
	return b.ex.readLayer(b.top, idx)
}

// plain: only concrete-index layers over a base (bulk element-wise copies are cheap)
func (l *layer) plain() bool {
	for x := l; x != nil; x = x.below {
		if x.kind == lMove || x.kind == lStore {
			return false
		}
	}
	return true
}

// canArr: the layer stack below (inclusive) can be expressed as one SMT array term.
func (l *layer) canArr() bool {
	for x := l; x != nil; x = x.below {
		if x.kind == lMove {
			return false
		}
	}
	return true
}

func (ex *Exec) layerArrTerm(l *layer, size *Term) *Term {
	if l.arrTerm != nil && l.frozen && l.arrSize == size {
		return l.arrTerm
	}
	tc := ex.tc
	var t *Term
	switch l.kind {
	case lBaseZero:
		t = tc.ConstArr()
	case lBaseArr:
		t = l.arr
	case lStore:
		t = tc.Store(ex.layerArrTerm(l.below, size), tc.Extract(31, 0, l.idx), l.val)
	case lConc:
		dense := size != nil && size.IsConst() && uint64(l.nset) == size.val
		if dense {
			// the layer overwrites the whole array: nothing below is visible
			t = tc.ConstArr()
		} else {
			t = ex.layerArrTerm(l.below, size)
		}
		zeroBase := t.op == OConstArr
		// deterministic order
		keys := make([]uint32, 0, len(l.chunks))
		for k := range l.chunks {
			keys = append(keys, k)
		}
		sortU32(keys)
		for _, k := range keys {
			ch := l.chunks[k]
			for j := 0; j < chunkSz; j++ {
				if ch[j] != nil {
					if zeroBase && ch[j].IsConst() && ch[j].val == 0 {
						continue
					}
					t = tc.Store(t, tc.BV(32, uint64(k*chunkSz+uint32(j))), ch[j])
				}
			}
		}
	default:
		panic("layerArrTerm on move layer")
	}
	if l.frozen {
		l.arrTerm = t
		l.arrSize = size
	}
	return t
}

func sortU32(a []uint32) {
	for i := 1; i < len(a); i++ {
		for j := i; j > 0 && a[j-1] > a[j]; j-- {
			a[j-1], a[j] = a[j], a[j-1]
		}
	}
}

func (ex *Exec) readLayer(l *layer, idx *Term) *Term {
	tc := ex.tc
	if idx.IsConst() {
		i := uint32(idx.val)
		for x := l; x != nil; x = x.below {
			switch x.kind {
			case lConc:
				if ch := x.chunks[i/chunkSz]; ch != nil && ch[i%chunkSz] != nil {
					return ch[i%chunkSz]
				}
			case lStore:
				c := tc.Eq(x.idx, idx)
				if c.IsTrue() {
					return x.val
				}
				if !c.IsFalse() && !ex.cannot(c) {
					if ex.cannot(tc.Not(c)) {
						return x.val
					}
					return tc.Ite(c, x.val, ex.readLayer(x.below, idx))
				}
			case lMove:
				in := tc.And(tc.Cmp(OULE, x.dst, idx), tc.Cmp(OULT, idx, tc.Bin(OAdd, x.dst, x.n)))
				if in.IsFalse() || ex.cannot(in) {
					continue
				}
				sv := ex.readLayer(x.src, tc.Bin(OAdd, x.srcOff, tc.Bin(OSub, idx, x.dst)))
				if in.IsTrue() || ex.cannot(tc.Not(in)) {
					return sv
				}
				return tc.Ite(in, sv, ex.readLayer(x.below, idx))
			case lBaseZero:
				return tc.BV(8, 0)
			case lBaseArr:
				return tc.Select(x.arr, tc.BV(32, uint64(i)))
			}
		}
		panic("readLayer: no base")
	}
	// symbolic index
	if l.canArr() {
		l.frozen = true
		return tc.Select(ex.layerArrTerm(l, nil), tc.Extract(31, 0, idx))
	}
	switch l.kind {
	case lConc:
		runs := l.runs()
		if len(runs) == 0 {
			return ex.readLayer(l.below, idx)
		}
		l.frozen = true
		// first: is idx certainly inside one run / certainly outside all of them?
		lo, hi := uint64(runs[0][0]), uint64(runs[len(runs)-1][1])
		span := tc.And(tc.Cmp(OULE, tc.BV(64, lo), idx), tc.Cmp(OULE, idx, tc.BV(64, hi)))
		if ex.cannot(span) {
			return ex.readLayer(l.below, idx)
		}
		own := ex.layerOwnArr(l)
		sel := tc.Select(own, tc.Extract(31, 0, idx))
		if len(runs) == 1 && ex.cannot(tc.Not(span)) {
			return sel
		}
		r := ex.readLayer(l.below, idx)
		for _, rn := range runs {
			var in *Term
			if rn[0] == rn[1] {
				in = tc.Eq(idx, tc.BV(64, uint64(rn[0])))
			} else {
				in = tc.And(tc.Cmp(OULE, tc.BV(64, uint64(rn[0])), idx), tc.Cmp(OULE, idx, tc.BV(64, uint64(rn[1]))))
			}
			if len(runs) > 1 && len(runs) <= 64 && ex.cannot(in) {
				continue
			}
			r = tc.Ite(in, sel, r)
		}
		return r
	case lStore:
		c := tc.Eq(l.idx, idx)
		if ex.cannot(c) {
			return ex.readLayer(l.below, idx)
		}
		if ex.cannot(tc.Not(c)) {
			return l.val
		}
		return tc.Ite(c, l.val, ex.readLayer(l.below, idx))
	case lMove:
		in := tc.And(tc.Cmp(OULE, l.dst, idx), tc.Cmp(OULT, idx, tc.Bin(OAdd, l.dst, l.n)))
		if ex.cannot(in) {
			return ex.readLayer(l.below, idx)
		}
		sv := ex.readLayer(l.src, tc.Bin(OAdd, l.srcOff, tc.Bin(OSub, idx, l.dst)))
		if ex.cannot(tc.Not(in)) {
			return sv
		}
		return tc.Ite(in, sv, ex.readLayer(l.below, idx))
	}
	panic("readLayer: unreachable")
}

// Move copies n bytes from src[srcOff...] into b[dst...] with memmove semantics.
func (b *ByteArr) Move(dst *Term, src *ByteArr, srcOff *Term, n *Term) {
	tc := b.ex.tc
	if n.IsConst() && n.val == 0 {
		return
	}
	if n.IsConst() && dst.IsConst() && srcOff.IsConst() && (n.val <= 16 || src.top.plain()) {
		cnt := int(n.val)
		tmp := make([]*Term, cnt)
		for i := 0; i < cnt; i++ {
			tmp[i] = src.Read(tc.BV(64, srcOff.val+uint64(i)))
		}
		for i := 0; i < cnt; i++ {
			b.Write(tc.BV(64, dst.val+uint64(i)), tmp[i])
		}
		return
	}
	sl := src.snapshot()
	b.top.frozen = true
	b.top = &layer{below: b.top, kind: lMove, dst: dst, n: n, src: sl, srcOff: srcOff, frozen: true, depth: b.top.depth + 1}
}

// runs returns the maximal contiguous index ranges [lo,hi] written in a concrete layer.
func (l *layer) runs() [][2]uint32 {
	if l.runCache != nil && l.frozen {
		return l.runCache
	}
	keys := make([]uint32, 0, len(l.chunks))
	for k := range l.chunks {
		keys = append(keys, k)
	}
	sortU32(keys)
	var out [][2]uint32
	for _, k := range keys {
		ch := l.chunks[k]
		for j := 0; j < chunkSz; j++ {
			if ch[j] == nil {
				continue
			}
			i := k*chunkSz + uint32(j)
			if n := len(out); n > 0 && out[n-1][1]+1 == i {
				out[n-1][1] = i
			} else {
				out = append(out, [2]uint32{i, i})
			}
		}
	}
	if l.frozen {
		l.runCache = out
	}
	return out
}

// layerOwnArr: the cells written in this concrete layer alone, as an SMT array over an all-zero base.
func (ex *Exec) layerOwnArr(l *layer) *Term {
	if l.ownArr != nil && l.frozen {
		return l.ownArr
	}
	tc := ex.tc
	t := tc.ConstArr()
	keys := make([]uint32, 0, len(l.chunks))
	for k := range l.chunks {
		keys = append(keys, k)
	}
	sortU32(keys)
	for _, k := range keys {
		ch := l.chunks[k]
		for j := 0; j < chunkSz; j++ {
			if ch[j] != nil && !(ch[j].IsConst() && ch[j].val == 0) {
				t = tc.Store(t, tc.BV(32, uint64(k*chunkSz+uint32(j))), ch[j])
			}
		}
	}
	if l.frozen {
		l.ownArr = t
	}
	return t
}
