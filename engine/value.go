package main

import (
	"fmt"
	"go/types"
	"strings"

	"golang.org/x/tools/go/ssa"
)

// Value representations:
//   bool/ints/floats : *Term
//   string           : Str
//   pointer          : *Value (cell) | BytePtr | ByteArrPtr | ViewPtr | UnsafePtr
//   struct           : Struct ([]Value, copied on load/store)
//   [N]byte          : *ByteArr (copied on load/store of whole array)
//   other arrays     : *ArrObj (copied on load/store)
//   []byte           : ByteSlice
//   other slices     : Slice
//   map              : *MapObj
//   interface        : Iface
//   func             : *ssa.Function | *ssa.Builtin | *Closure | nil
//   tuple            : Tuple
//   chan             : *ChanObj
type Value interface{}

type Str struct {
	s   string  // concrete content (valid if sym == nil)
	sym []*Term // per-byte terms when any byte is symbolic
}

func (s Str) Len() int {
	if s.sym != nil {
		return len(s.sym)
	}
	return len(s.s)
}
func (s Str) IsConc() bool { return s.sym == nil }

type Struct []Value

type ArrObj struct {
	elems []Value
}

type Slice struct {
	arr           *ArrObj
	off, len, cap int
}

type ByteSlice struct {
	arr           *ByteArr // nil => nil slice
	off, len, cap *Term    // BV64
}

type BytePtr struct {
	arr *ByteArr
	idx *Term
}

// pointer to a byte array living inside a ByteArr at an offset (e.g. from slice->array-pointer conversion)
type ByteArrPtr struct {
	arr *ByteArr
	off *Term
	n   int
}

// ViewPtr is *T where T = struct{ X } obtained by casting *X through unsafe.Pointer
type ViewPtr struct {
	inner Value
	t     types.Type // T
}

type UnsafePtr struct {
	v Value
	t types.Type // original pointer type
}

type Iface struct {
	t types.Type
	v Value
}

type Closure struct {
	fn  *ssa.Function
	env []Value
}

type Tuple []Value

type MapObj struct {
	keys  []Value
	vals  []Value
	live  []bool
	index map[string]int
	n     int
	kt    types.Type
}

type ChanObj struct {
	sendq  []*sendItem
	buf    []Value
	cap    int
	closed bool
	id     int
}

// map iteration state
type MapIter struct {
	m     *MapObj
	order []int
	pos   int
}
type StrIter struct {
	s   Str
	pos int
}

func isByteType(t types.Type) bool {
	b, ok := t.Underlying().(*types.Basic)
	return ok && (b.Kind() == types.Uint8)
}

func (ex *Exec) concStr(s string) Str { return Str{s: s} }

func (ex *Exec) strBytes(s Str) []*Term {
	if s.sym != nil {
		return s.sym
	}
	out := make([]*Term, len(s.s))
	for i := 0; i < len(s.s); i++ {
		out[i] = ex.tc.BV(8, uint64(s.s[i]))
	}
	return out
}

func (ex *Exec) mkStr(bs []*Term) Str {
	all := true
	for _, b := range bs {
		if !b.IsConst() {
			all = false
			break
		}
	}
	if all {
		var sb strings.Builder
		for _, b := range bs {
			sb.WriteByte(byte(b.val))
		}
		return Str{s: sb.String()}
	}
	if len(bs) == 0 {
		return Str{}
	}
	return Str{sym: bs}
}

func basicWidth(b *types.Basic) int {
	switch b.Kind() {
	case types.Bool, types.UntypedBool:
		return 0
	case types.Int8, types.Uint8:
		return 8
	case types.Int16, types.Uint16:
		return 16
	case types.Int32, types.Uint32, types.Float32, types.UntypedRune:
		return 32
	case types.Int, types.Uint, types.Int64, types.Uint64, types.Uintptr, types.Float64, types.UntypedInt, types.UntypedFloat:
		return 64
	}
	return -1
}

func isSigned(t types.Type) bool {
	b, ok := t.Underlying().(*types.Basic)
	return ok && b.Info()&types.IsInteger != 0 && b.Info()&types.IsUnsigned == 0
}
func isFloat(t types.Type) bool {
	b, ok := t.Underlying().(*types.Basic)
	return ok && b.Info()&types.IsFloat != 0
}
func isInteger(t types.Type) bool {
	b, ok := t.Underlying().(*types.Basic)
	return ok && b.Info()&types.IsInteger != 0
}
func isString(t types.Type) bool {
	b, ok := t.Underlying().(*types.Basic)
	return ok && b.Info()&types.IsString != 0
}
func isBool(t types.Type) bool {
	b, ok := t.Underlying().(*types.Basic)
	return ok && b.Info()&types.IsBoolean != 0
}

func (ex *Exec) zero(t types.Type) Value {
	switch u := t.Underlying().(type) {
	case *types.Basic:
		if u.Kind() == types.UnsafePointer {
			return UnsafePtr{}
		}
		if u.Info()&types.IsString != 0 {
			return Str{}
		}
		if u.Kind() == types.UntypedNil {
			return nil
		}
		w := basicWidth(u)
		if w == 0 {
			return ex.tc.Bool(false)
		}
		if w < 0 {
			panic(fmt.Sprintf("zero: unsupported basic %v", u))
		}
		return ex.tc.BV(w, 0)
	case *types.Pointer:
		return (*Value)(nil)
	case *types.Struct:
		s := make(Struct, u.NumFields())
		for i := range s {
			s[i] = ex.zero(u.Field(i).Type())
		}
		return s
	case *types.Array:
		if isByteType(u.Elem()) {
			return ex.newByteArrZero(ex.tc.BV(64, uint64(u.Len())))
		}
		a := &ArrObj{elems: make([]Value, u.Len())}
		for i := range a.elems {
			a.elems[i] = ex.zero(u.Elem())
		}
		return a
	case *types.Slice:
		if isByteType(u.Elem()) {
			z := ex.tc.BV(64, 0)
			return ByteSlice{nil, z, z, z}
		}
		return Slice{}
	case *types.Map:
		return (*MapObj)(nil)
	case *types.Interface:
		return Iface{}
	case *types.Signature:
		return nil
	case *types.Chan:
		return (*ChanObj)(nil)
	case *types.Tuple:
		tp := make(Tuple, u.Len())
		for i := range tp {
			tp[i] = ex.zero(u.At(i).Type())
		}
		return tp
	}
	panic(fmt.Sprintf("zero: unsupported type %v", t))
}

// copyVal: value semantics for aggregates.
func (ex *Exec) copyVal(v Value) Value {
	switch x := v.(type) {
	case Struct:
		n := make(Struct, len(x))
		for i, f := range x {
			n[i] = ex.copyVal(f)
		}
		return n
	case *ArrObj:
		if x == nil {
			return x
		}
		n := &ArrObj{elems: make([]Value, len(x.elems))}
		for i, f := range x.elems {
			n.elems[i] = ex.copyVal(f)
		}
		return n
	case *ByteArr:
		if x == nil {
			return x
		}
		return x.clone()
	}
	return v
}

// copyValT copies a value of static type t: arrays are copied, but *ArrObj / *ByteArr used
// behind pointers or slices are never passed here as "values".
func (ex *Exec) load(ptr Value, t types.Type) Value {
	switch p := ptr.(type) {
	case *Value:
		if p == nil {
			ex.goPanic("nil pointer dereference")
		}
		return ex.copyVal(*p)
	case BytePtr:
		return p.arr.Read(p.idx)
	case ByteArrPtr:
		// load whole array value
		na := ex.newByteArrZero(ex.tc.BV(64, uint64(p.n)))
		na.Move(ex.tc.BV(64, 0), p.arr, p.off, ex.tc.BV(64, uint64(p.n)))
		return na
	case ViewPtr:
		// loading the wrapper struct value: struct{ inner }
		return Struct{ex.load(p.inner, nil)}
	case UnsafePtr:
		return ex.load(p.v, t)
	}
	ex.unsupported(fmt.Sprintf("load through %T", ptr))
	return nil
}

func (ex *Exec) store(ptr Value, v Value) {
	switch p := ptr.(type) {
	case *Value:
		if p == nil {
			ex.goPanic("nil pointer dereference")
		}
		ex.assignInto(p, v)
	case BytePtr:
		p.arr.Write(p.idx, v.(*Term))
	case ByteArrPtr:
		src := v.(*ByteArr)
		p.arr.Move(p.off, src, ex.tc.BV(64, 0), ex.tc.BV(64, uint64(p.n)))
	case ViewPtr:
		ex.store(p.inner, v.(Struct)[0])
	default:
		ex.unsupported(fmt.Sprintf("store through %T", ptr))
	}
}

func isNilPtr(v Value) bool {
	switch p := v.(type) {
	case nil:
		return true
	case *Value:
		return p == nil
	case UnsafePtr:
		return p.v == nil || isNilPtr(p.v)
	case ViewPtr:
		return isNilPtr(p.inner)
	case BytePtr:
		return p.arr == nil
	case ByteArrPtr:
		return p.arr == nil
	}
	return false
}

// concrete key string for map lookups; ok=false if the key contains symbolic parts
func (ex *Exec) keyString(v Value) (string, bool) {
	switch x := v.(type) {
	case *Term:
		if x.IsConst() {
			return fmt.Sprintf("i%d:%d", x.sort, x.val), true
		}
		return "", false
	case Str:
		if x.IsConc() {
			return "s" + x.s, true
		}
		return "", false
	case *Value:
		return fmt.Sprintf("p%p", x), true
	case Struct:
		var sb strings.Builder
		sb.WriteString("{")
		for _, f := range x {
			k, ok := ex.keyString(f)
			if !ok {
				return "", false
			}
			sb.WriteString(k)
			sb.WriteString(";")
		}
		sb.WriteString("}")
		return sb.String(), true
	case Iface:
		if x.t == nil {
			return "nilif", true
		}
		k, ok := ex.keyString(x.v)
		return "I" + x.t.String() + ":" + k, ok
	case *ArrObj:
		var sb strings.Builder
		sb.WriteString("[")
		for _, f := range x.elems {
			k, ok := ex.keyString(f)
			if !ok {
				return "", false
			}
			sb.WriteString(k)
			sb.WriteString(";")
		}
		return sb.String(), true
	case *MapObj:
		return fmt.Sprintf("m%p", x), true
	case *ChanObj:
		return fmt.Sprintf("c%p", x), true
	case ViewPtr:
		k, ok := ex.keyString(x.inner)
		return "V" + k, ok
	case *ssa.Function:
		return fmt.Sprintf("f%p", x), true
	case *Closure:
		return fmt.Sprintf("cl%p", x), true
	case nil:
		return "nil", true
	}
	return "", false
}

func (ex *Exec) newMap(kt types.Type) *MapObj {
	return &MapObj{index: map[string]int{}, kt: kt}
}

// lookup returns the index of the entry equal to key, or -1.  Symbolic keys fork.
func (ex *Exec) mapFind(m *MapObj, key Value) int {
	if m == nil {
		return -1
	}
	if ks, ok := ex.keyString(key); ok {
		if i, ok := m.index[ks]; ok && m.live[i] {
			return i
		}
		// entries with symbolic keys must be compared explicitly
		for i := range m.keys {
			if !m.live[i] {
				continue
			}
			if _, c := ex.keyString(m.keys[i]); !c {
				if ex.branch(ex.equalVals(m.keys[i], key)) {
					return i
				}
			}
		}
		return -1
	}
	for i := range m.keys {
		if !m.live[i] {
			continue
		}
		if ex.branch(ex.equalVals(m.keys[i], key)) {
			return i
		}
	}
	return -1
}

func (ex *Exec) mapSet(m *MapObj, key, val Value) {
	if m == nil {
		ex.goPanic("assignment to entry in nil map")
	}
	i := ex.mapFind(m, key)
	if i >= 0 {
		m.vals[i] = val
		return
	}
	m.keys = append(m.keys, key)
	m.vals = append(m.vals, val)
	m.live = append(m.live, true)
	m.n++
	if ks, ok := ex.keyString(key); ok {
		m.index[ks] = len(m.keys) - 1
	}
}

func (ex *Exec) mapDelete(m *MapObj, key Value) {
	i := ex.mapFind(m, key)
	if i < 0 {
		return
	}
	m.live[i] = false
	m.n--
	if ks, ok := ex.keyString(m.keys[i]); ok {
		delete(m.index, ks)
	}
}

func typeName(t types.Type) string {
	if t == nil {
		return "<nil>"
	}
	return t.String()
}

// assignInto stores v into the cell keeping the identity of aggregate sub-cells (pointers to
// fields / elements taken earlier stay valid, as in Go).
func (ex *Exec) assignInto(dst *Value, v Value) {
	switch x := v.(type) {
	case Struct:
		if cur, ok := (*dst).(Struct); ok && len(cur) == len(x) {
			for i := range x {
				ex.assignInto(&cur[i], x[i])
			}
			return
		}
	case *ArrObj:
		if cur, ok := (*dst).(*ArrObj); ok && cur != nil && x != nil && len(cur.elems) == len(x.elems) {
			if cur == x {
				return
			}
			for i := range x.elems {
				ex.assignInto(&cur.elems[i], x.elems[i])
			}
			return
		}
	case *ByteArr:
		if cur, ok := (*dst).(*ByteArr); ok && cur != nil && x != nil {
			if cur == x {
				return
			}
			cur.top = x.snapshot()
			return
		}
	}
	*dst = ex.copyVal(v)
}
