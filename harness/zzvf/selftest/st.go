//go:build verif

package selftest

import (
	"bytes"
	"encoding/binary"

	"github.com/ryogrid/SamehadaDB/lib/zzvf/vf"
)

type pt struct {
	X int32
	Y uint16
}

type shape interface{ Area() int }
type sq struct{ s int }

func (s sq) Area() int { return s.s * s.s }

func VF_ST_Arith() {
	a := vf.U32()
	b := vf.U32()
	vf.Assume(a < 1000 && b < 1000)
	vf.Assert(a+b < 2000, "sum bound")
	vf.Assert(a+b >= a, "no wrap")
	if a > b {
		vf.Cover("a>b")
		vf.Assert(a-b > 0, "diff positive")
	} else {
		vf.Cover("a<=b")
	}
}

func VF_ST_ArithBad() {
	a := vf.U32()
	b := vf.U32()
	vf.Assert(a+b >= a, "wraps")
}

func VF_ST_Binary() {
	x := vf.U32()
	buf := new(bytes.Buffer)
	binary.Write(buf, binary.LittleEndian, x)
	bs := buf.Bytes()
	vf.Assert(len(bs) == 4, "len4")
	var y uint32
	binary.Read(bytes.NewBuffer(bs), binary.LittleEndian, &y)
	vf.Assert(x == y, "roundtrip")
	p := pt{int32(x), uint16(x >> 3)}
	b2 := new(bytes.Buffer)
	binary.Write(b2, binary.BigEndian, p)
	var q pt
	binary.Read(bytes.NewBuffer(b2.Bytes()), binary.BigEndian, &q)
	vf.Assert(p == q, "struct roundtrip")
	vf.Assert(binary.LittleEndian.Uint32(bs) == x, "le uint32")
}

func VF_ST_Slices() {
	n := int(vf.U8())
	vf.Assume(n <= 40)
	data := make([]byte, n)
	src := vf.Bytes(8)
	c := copy(data, src)
	if n >= 8 {
		vf.Assert(c == 8, "copied 8")
		vf.Assert(data[7] == src[7], "last byte")
	} else {
		vf.Assert(c == n, "copied n")
	}
	m := map[string]int{"a": 1, "b": 2}
	m["c"] = 3
	delete(m, "a")
	tot := 0
	for _, v := range m {
		tot += v
	}
	vf.Assert(tot == 5, "map sum")
	var s shape = sq{3}
	vf.Assert(s.Area() == 9, "iface")
	xs := []int{}
	for i := 0; i < 5; i++ {
		xs = append(xs, i*i)
	}
	vf.Assert(xs[4] == 16 && len(xs) == 5, "append")
	idx := int(vf.U8())
	vf.Assume(idx < 5)
	vf.Assert(xs[idx] == idx*idx, "symbolic index")
}

func VF_ST_Panic() {
	i := int(vf.U8())
	arr := [4]int{1, 2, 3, 4}
	p := vf.ExpectPanic(func() { _ = arr[i] })
	vf.Assert(p == (i >= 4), "panic iff out of range")
	defer func() {
		r := recover()
		vf.Assert(r != nil, "recovered")
	}()
	var pp *pt
	_ = pp.X
}

func VF_ST_Page() {
	pg := vf.Page()
	off := vf.U32()
	vf.Assume(off <= 4096-8)
	v := vf.U32()
	buf := new(bytes.Buffer)
	binary.Write(buf, binary.LittleEndian, v)
	copy(pg[off:], buf.Bytes())
	var r uint32
	binary.Read(bytes.NewBuffer(pg[off:]), binary.LittleEndian, &r)
	vf.Assert(r == v, "page rw")
	j := vf.U32()
	vf.Assume(j < 4096 && (j < off || j >= off+4))
	before := pg[j]
	copy(pg[off:], buf.Bytes())
	vf.Assert(pg[j] == before, "frame")
	// memmove with symbolic length
	n := vf.U32()
	vf.Assume(n <= 100 && off+n <= 4096-200)
	tmp := make([]byte, n)
	copy(tmp, pg[off:off+n])
	copy(pg[off+100:], tmp)
	k := vf.U32()
	vf.Assume(k < n)
	vf.Assert(pg[off+100+k] == tmp[k], "moved")
}

func VF_ST_Float() {
	a := vf.F32()
	b := vf.F32()
	vf.Assume(!vf.F32IsNaN(a) && !vf.F32IsNaN(b))
	if a < b {
		vf.Assert(!(b < a), "asym")
		vf.Assert(b > a, "gt")
	}
	vf.Assert(a == a, "refl")
}
