//go:build verif

// Package vf is the harness API. The symbolic engine (gosym) intercepts every function here;
// this native implementation is used for replaying counterexamples and for differential tests:
// values are drawn, in call order, from the JSON vector named by $VF_REPLAY.
package vf

import (
	"bytes"
	"encoding/json"
	"fmt"
	"math"
	"os"
	"runtime"
	"strings"
	"time"
)

type item struct {
	Kind  string            `json:"kind"`
	Val   uint64            `json:"val"`
	Arr   []int             `json:"arr,omitempty"`
	Files map[string][]byte `json:"files,omitempty"`
}

var vec []item
var pos int
var loaded bool
var Failed []string
var Covered = map[string]bool{}
var Notes []string

func load() {
	if loaded {
		return
	}
	loaded = true
	p := os.Getenv("VF_REPLAY")
	if p == "" {
		return
	}
	data, err := os.ReadFile(p)
	if err != nil {
		panic(err)
	}
	if err := json.Unmarshal(data, &vec); err != nil {
		panic(err)
	}
}

// Reset restarts consumption of the replay vector (used by tests running several harnesses).
func Reset() { pos = 0; Failed = nil; Notes = nil; Covered = map[string]bool{} }

func next(kind string) item {
	load()
	if pos >= len(vec) {
		panic(fmt.Sprintf("vf: replay vector exhausted at %d (want %s)", pos, kind))
	}
	it := vec[pos]
	pos++
	if it.Kind != kind {
		panic(fmt.Sprintf("vf: replay diverged at %d: want %s, vector has %s", pos-1, kind, it.Kind))
	}
	return it
}

func U8() uint8   { return uint8(next("u8").Val) }
func U16() uint16 { return uint16(next("u16").Val) }
func U32() uint32 { return uint32(next("u32").Val) }
func U64() uint64 { return next("u64").Val }
func I32() int32  { return int32(uint32(next("i32").Val)) }
func I64() int64  { return int64(next("i64").Val) }
func Int() int    { return int(int64(next("i64").Val)) }
func Bool() bool  { return next("bool").Val != 0 }
func F32() float32 {
	return math.Float32frombits(uint32(next("f32").Val))
}

func Bytes(n int) []byte {
	b := make([]byte, n)
	for i := range b {
		b[i] = U8()
	}
	return b
}

// BytesN returns a byte slice of arbitrary length <= max and arbitrary content.
func BytesN(max int) []byte {
	n := int(next("len").Val)
	it := next("array")
	b := make([]byte, n)
	for i := 0; i < n && i < len(it.Arr); i++ {
		b[i] = byte(it.Arr[i])
	}
	return b
}

// Page returns an arbitrary 4 KiB page image.
func Page() *[4096]byte {
	it := next("array")
	p := new([4096]byte)
	for i := 0; i < 4096 && i < len(it.Arr); i++ {
		p[i] = byte(it.Arr[i])
	}
	return p
}

func Choose(n int) int { return int(next("choose").Val) }

type assumeFailed struct{}

func Assume(c bool) {
	if !c {
		panic(assumeFailed{})
	}
}

type assertStop struct{}

// Assert records the first failing assertion and stops the harness (the engine also stops there).
func Assert(c bool, what string) {
	if !c {
		Failed = append(Failed, what)
		fmt.Printf("VF-ASSERT-FAIL %s\n", what)
		panic(assertStop{})
	}
}

func Cover(label string) { Covered[label] = true }

func Note(label string, v interface{}) { Notes = append(Notes, fmt.Sprintf("%s=%v", label, v)) }

// ExpectPanic runs f and reports whether it panicked.
func ExpectPanic(f func()) (panicked bool) {
	defer func() {
		if r := recover(); r != nil {
			if _, ok := r.(assumeFailed); ok {
				panic(r)
			}
			if _, ok := r.(assertStop); ok {
				panic(r)
			}
			panicked = true
		}
	}()
	f()
	return false
}

func Symbolic() bool                { return false }
func IsConcrete(v interface{}) bool { return true }
func Ite32(c bool, a, b uint32) uint32 {
	if c {
		return a
	}
	return b
}
func And(a, b bool) bool     { return a && b }
func Or(a, b bool) bool      { return a || b }
func Implies(a, b bool) bool { return !a || b }

func BytesLess(a, b []byte) bool { return bytes.Compare(a, b) < 0 }
func BytesEq(a, b []byte) bool   { return bytes.Equal(a, b) }
func StrLess(a, b string) bool   { return a < b }
func F32IsNaN(f float32) bool    { return f != f }
func F32Less(a, b float32) bool  { return a < b }
func F32Eq(a, b float32) bool    { return a == b }

// File-system model helpers: meaningful only inside the engine.
func FsTraceLen() int                          { return int(next("tracelen").Val) }
func FsTraceKind(k int) string                 { return "" }
func FsTraceWriteLen(k int) int                { return 1 << 30 }
func FsTraceIsWrite(k int, suffix string) bool { return true }

// FsCrash: in the engine, replaces the file system by the state after the first k writes of the I/O
// trace (write k torn after `tear` bytes). Natively (replay) the crash image computed by the engine for
// the counterexample is installed into the working directory; the caller has closed the old instance.
func FsCrash(k int, tear int) {
	it := next("crash")
	ents, _ := os.ReadDir(".")
	for _, e := range ents {
		if !e.IsDir() && (strings.HasSuffix(e.Name(), ".db") || strings.HasSuffix(e.Name(), ".log")) {
			os.Remove(e.Name())
		}
	}
	for name, data := range it.Files {
		if err := os.WriteFile(name, data, 0666); err != nil {
			panic(err)
		}
	}
}
func FsFileSize(name string) int64 { return -1 }

// RunNative runs a harness natively against the replay vector and reports failed assertions.
func RunNative(h func()) (failed []string, panicMsg string) {
	Reset()
	defer func() {
		failed = Failed
		if r := recover(); r != nil {
			if _, ok := r.(assumeFailed); ok {
				panicMsg = "ASSUME-FAILED"
				return
			}
			if _, ok := r.(assertStop); ok {
				return
			}
			panicMsg = fmt.Sprintf("%v", r)
		}
	}()
	h()
	return
}

// RandBudget: number of math/rand draws the engine treats as arbitrary values on this path (the rest
// are a fixed tail value). Natively a no-op.
func RandBudget(n int) {}

// MapOrders(true): from here on the engine explores the iteration orders of small maps (Go randomises
// them); off by default. Natively a no-op.
func MapOrders(on bool) {}

// MapOrdersIn(fn): explore map iteration orders only inside functions whose name contains fn ("" = off).
func MapOrdersIn(fn string) {}

// Sched(list): in the engine, goroutines started by functions whose name contains one of the comma
// separated substrings run under the cooperative scheduler (all schedules explored). Natively a no-op:
// the Go runtime schedules.
func Sched(list string) {}

// Yield(): an explicit switch point under the engine's scheduler (another goroutine may run here; counts
// against the preemption bound). Natively the goroutine sleeps a few milliseconds so that the others get to run.
func Yield() { runtime.Gosched(); time.Sleep(3 * time.Millisecond) }

// SchedPreempt(n): bound on preemptive context switches per path in the engine's scheduler (default 1);
// switches at blocking operations are never bounded.
func SchedPreempt(n int) {}
