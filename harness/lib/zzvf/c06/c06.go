//go:build verif

// C06 — every supported single-table statement returns the reference answer.
// The statement enters at QueryInfo level (what the SQL front end produces) and runs through the real
// RewriteQueryInfo -> SimplePlanner/SelingerOptimizer -> executors pipeline on a table holding ONE row
// with symbolic column values: the row is a Skolem row, so "row returned <=> predicate true" covers
// every row of every table for these (row-wise) statements.
package c06

import (
	"github.com/ryogrid/SamehadaDB/lib/execution/expression"
	"github.com/ryogrid/SamehadaDB/lib/parser"
	"github.com/ryogrid/SamehadaDB/lib/storage/index/index_constants"
	"github.com/ryogrid/SamehadaDB/lib/types"
	"github.com/ryogrid/SamehadaDB/lib/zzvf/sysx"
	"github.com/ryogrid/SamehadaDB/lib/zzvf/vf"
)

var ops = []expression.ComparisonType{expression.Equal, expression.NotEqual, expression.GreaterThan, expression.GreaterThanOrEqual, expression.LessThan, expression.LessThanOrEqual}
var opNames = []string{"=", "<>", ">", ">=", "<", "<="}

func refCmp(op expression.ComparisonType, l, r int32) bool {
	switch op {
	case expression.Equal:
		return l == r
	case expression.NotEqual:
		return l != r
	case expression.GreaterThan:
		return l > r
	case expression.GreaterThanOrEqual:
		return l >= r
	case expression.LessThan:
		return l < r
	default:
		return l <= r
	}
}

type conj struct {
	col       int // 0 = a (indexed), 1 = b
	op        int
	c         int32
	constLeft bool
}

func (k conj) expr() *parser.BinaryOpExpression {
	// a column on the right-hand side must be written qualified (the rewriter rejects it otherwise)
	return sysx.Cmp([]string{"t1.a", "t1.b"}[k.col], ops[k.op], types.NewInteger(k.c), k.constLeft)
}

func (k conj) ref(a, b int32) bool {
	v := a
	if k.col == 1 {
		v = b
	}
	if k.constLeft {
		return refCmp(ops[k.op], k.c, v)
	}
	return refCmp(ops[k.op], v, k.c)
}

func pickConj(cols int, sides int) conj {
	k := conj{col: vf.Choose(cols), op: vf.Choose(6), c: vf.I32()}
	k.constLeft = vf.Choose(sides) == 1
	side := "col-left"
	if k.constLeft {
		side = "const-left"
	}
	vf.Note("conjunct", []string{"a", "b"}[k.col]+" "+opNames[k.op]+" "+side)
	// the engine documents MaxInt32/MinInt32 as its +-infinity markers inside Value.Compare*: outside the claim
	if !boundaryInts {
		vf.Assume(k.c != 2147483647 && k.c != -2147483648)
	}
	return k
}

type world struct {
	db   *sysx.DB
	a, b int32
}

func setup(updateStats bool) *world {
	db := sysx.Open("vfc06", 32)
	tm := db.CreateTable("t1", []sysx.ColDef{{"a", types.Integer, index_constants.IndexKindSkipList}, {"b", types.Integer, index_constants.IndexKindInvalid}, {"tag", types.Integer, index_constants.IndexKindInvalid}})
	w := &world{db: db, a: vf.I32(), b: vf.I32()}
	if !boundaryInts {
		vf.Assume(w.a != 2147483647 && w.a != -2147483648 && w.b != 2147483647 && w.b != -2147483648)
	}
	_, _, ab := db.Auto(sysx.Insert("t1", []string{"a", "b", "tag"}, []types.Value{types.NewInteger(w.a), types.NewInteger(w.b), types.NewInteger(7)}))
	vf.Assert(!ab, "insert is not aborted")
	if updateStats {
		txn := db.Shi.GetTransactionManager().Begin(nil)
		tm.GetStatistics().Update(tm, txn)
		db.Shi.GetTransactionManager().Commit(db.Cat, txn)
		vf.Note("stats", "updated")
	} else {
		vf.Note("stats", "fresh")
	}
	return w
}

func (w *world) checkSelect(where *parser.BinaryOpExpression, want bool) {
	rows, sc, ab := w.db.Auto(sysx.Select("t1", []string{"a", "b", "tag"}, where))
	vf.Assert(!ab, "select is not aborted")
	vf.Cover("c06.select.done")
	if want {
		vf.Cover("c06.select.match")
		vf.Assert(len(rows) == 1, "a row satisfying the predicate is returned exactly once")
		vf.Assert(rows[0].GetValue(sc, 0).ToInteger() == w.a, "a is read back as stored")
		vf.Assert(rows[0].GetValue(sc, 1).ToInteger() == w.b, "b is read back as stored")
		vf.Assert(rows[0].GetValue(sc, 2).ToInteger() == 7, "tag is read back as stored")
	} else {
		vf.Cover("c06.select.nomatch")
		vf.Assert(len(rows) == 0, "a row not satisfying the predicate is not returned")
	}
}

func andN(n int, cols int, sides int) {
	w := setup(vf.Choose(2) == 1)
	var where *parser.BinaryOpExpression
	want := true
	for i := 0; i < n; i++ {
		k := pickConj(cols, sides)
		want = want && k.ref(w.a, w.b)
		if where == nil {
			where = k.expr()
		} else {
			where = sysx.And(where, k.expr())
		}
	}
	w.checkSelect(where, want)
}

// one OR on top (sequential-scan path of the planner), constants on the right
func orN() {
	w := setup(false)
	k1, k2 := pickConj(2, 1), pickConj(2, 1)
	w.checkSelect(sysx.Or(k1.expr(), k2.expr()), k1.ref(w.a, w.b) || k2.ref(w.a, w.b))
}

func VF_C06_And1() { andN(1, 2, 2) }

// the same with the largest and the smallest integer allowed as stored values and as constants (they double as
// the engine's +-infinity markers inside Value.Compare*)
var boundaryInts = false

func VF_C06_And1_Boundary() {
	boundaryInts = true
	andN(1, 2, 2)
}
func VF_C06_And2_Indexed() { andN(2, 1, 2) }
func VF_C06_And2()         { andN(2, 2, 2) }
func VF_C06_And3_Indexed() { andN(3, 1, 1) }
func VF_C06_Or2()          { orN() }

// constant on the left under OR: kept apart (own scenario signature)
func VF_C06_Or2_ConstLeft() {
	w := setup(false)
	k1, k2 := pickConj(2, 2), pickConj(2, 2)
	vf.Assume(k1.constLeft || k2.constLeft)
	w.checkSelect(sysx.Or(k1.expr(), k2.expr()), k1.ref(w.a, w.b) || k2.ref(w.a, w.b))
}

// no WHERE clause
func VF_C06_NoWhere() {
	w := setup(vf.Choose(2) == 1)
	w.checkSelect(nil, true)
}

// select list written in another order than the table's columns
func VF_C06_ColumnOrder() {
	w := setup(false)
	var where *parser.BinaryOpExpression
	if vf.Choose(2) == 1 {
		where = sysx.Cmp("a", expression.Equal, types.NewInteger(w.a), false)
		vf.Note("where", "a = <stored a>")
	}
	rows, sc, ab := w.db.Auto(sysx.Select("t1", []string{"tag", "b", "a"}, where))
	vf.Assert(!ab && len(rows) == 1, "the row is returned")
	vf.Cover("c06.order")
	vf.Assert(vf.And(rows[0].GetValue(sc, 0).ToInteger() == 7, vf.And(rows[0].GetValue(sc, 1).ToInteger() == w.b, rows[0].GetValue(sc, 2).ToInteger() == w.a)), "selected columns come in the order written")
}

// ---- varchar column (skip-list indexed): one Skolem row, one or two comparisons with symbolic short strings ----

func symStr(maxLen int) string {
	n := vf.Choose(maxLen + 1)
	b := vf.Bytes(n)
	for i := 0; i < n; i++ {
		vf.Assume(b[i] != 0)
	}
	return string(b)
}

func refCmpStr(op expression.ComparisonType, l, r string) bool {
	switch op {
	case expression.Equal:
		return l == r
	case expression.NotEqual:
		return l != r
	case expression.GreaterThan:
		return vf.StrLess(r, l)
	case expression.GreaterThanOrEqual:
		return !vf.StrLess(l, r)
	case expression.LessThan:
		return vf.StrLess(l, r)
	default:
		return !vf.StrLess(r, l)
	}
}

func varcharN(n int) {
	db := sysx.Open("vfc06v", 32)
	db.CreateTable("tv", []sysx.ColDef{{"s", types.Varchar, index_constants.IndexKindSkipList}, {"tag", types.Integer, index_constants.IndexKindInvalid}})
	s := symStr(2)
	_, _, ab := db.Auto(sysx.Insert("tv", []string{"s", "tag"}, []types.Value{types.NewVarchar(s), types.NewInteger(7)}))
	vf.Assert(!ab, "insert is not aborted")
	if vf.Choose(2) == 1 {
		db.UpdateStats("tv") // what the statistics thread does; makes the index plan win
		vf.Note("stats", "updated")
	}
	var where *parser.BinaryOpExpression
	want := true
	for i := 0; i < n; i++ {
		op := vf.Choose(6)
		c := symStr(2)
		vf.Note("conjunct", "s "+opNames[op])
		want = want && refCmpStr(ops[op], s, c)
		e := sysx.Cmp("s", ops[op], types.NewVarchar(c), false)
		if where == nil {
			where = e
		} else {
			where = sysx.And(where, e)
		}
	}
	rows, sc, ab2 := db.Auto(sysx.Select("tv", []string{"s", "tag"}, where))
	vf.Assert(!ab2, "select is not aborted")
	vf.Cover("c06.varchar.done")
	if want {
		vf.Assert(len(rows) == 1, "a row satisfying the predicate is returned exactly once (varchar)")
		vf.Assert(rows[0].GetValue(sc, 0).ToVarchar() == s && rows[0].GetValue(sc, 1).ToInteger() == 7, "varchar value is read back as stored")
	} else {
		vf.Assert(len(rows) == 0, "a row not satisfying the predicate is not returned (varchar)")
	}
}

func VF_C06_Varchar1() { varcharN(1) }
func VF_C06_Varchar2() { varcharN(2) }

// ---- UPDATE / DELETE: rows changed are exactly those the statement's meaning defines ----

type drow struct{ a, b, tag int32 }

func dmlSetup() (*sysx.DB, []drow) {
	db := sysx.Open("vfc06", 32)
	db.CreateTable("t1", []sysx.ColDef{{"a", types.Integer, index_constants.IndexKindSkipList}, {"b", types.Integer, index_constants.IndexKindInvalid}, {"tag", types.Integer, index_constants.IndexKindInvalid}})
	rows := []drow{{vf.I32(), vf.I32(), 1}, {vf.I32(), vf.I32(), 2}}
	for _, r := range rows {
		vf.Assume(r.a != 2147483647 && r.a != -2147483648 && r.b != 2147483647 && r.b != -2147483648)
		_, _, ab := db.Auto(sysx.Insert("t1", []string{"a", "b", "tag"}, []types.Value{types.NewInteger(r.a), types.NewInteger(r.b), types.NewInteger(r.tag)}))
		vf.Assert(!ab, "insert is not aborted")
	}
	if vf.Choose(2) == 1 {
		db.UpdateStats("t1")
		vf.Note("stats", "updated")
	}
	return db, rows
}

// the table (through a plain sequential scan) holds exactly the reference rows, and the index on a agrees with it
func dmlAudit(db *sysx.DB, want []drow, what string) {
	got, sc, ab := db.SelectAll("t1")
	vf.Assert(!ab, what+": scan is not aborted")
	vf.Assert(len(got) == len(want), what+": the table holds as many rows as the reference")
	for _, w := range want {
		n := 0
		for _, g := range got {
			if g.GetValue(sc, 2).ToInteger() == w.tag {
				n++
				vf.Assert(g.GetValue(sc, 0).ToInteger() == w.a && g.GetValue(sc, 1).ToInteger() == w.b, what+": row holds the reference values")
			}
		}
		vf.Assert(n == 1, what+": every reference row is there exactly once")
	}
	db.IndexAudit("t1", 0, what)
	vf.Cover("c06.dml.audited")
}

func VF_C06_Update_NonKey() {
	db, rows := dmlSetup()
	k := pickConj(2, 2)
	nb := vf.I32()
	vf.Assume(nb != 2147483647 && nb != -2147483648)
	_, _, ab := db.Auto(sysx.Update("t1", []string{"b"}, []types.Value{types.NewInteger(nb)}, k.expr()))
	vf.Assert(!ab, "update of a lone transaction is not aborted")
	for i := range rows {
		if k.ref(rows[i].a, rows[i].b) {
			rows[i].b = nb
			vf.Cover("c06.update.match")
		}
	}
	dmlAudit(db, rows, "after UPDATE SET b")
}

func VF_C06_Update_Key() {
	db, rows := dmlSetup()
	k := pickConj(2, 1)
	na := vf.I32()
	vf.Assume(na != 2147483647 && na != -2147483648)
	_, _, ab := db.Auto(sysx.Update("t1", []string{"a"}, []types.Value{types.NewInteger(na)}, k.expr()))
	vf.Assert(!ab, "update of a lone transaction is not aborted")
	for i := range rows {
		if k.ref(rows[i].a, rows[i].b) {
			rows[i].a = na
			vf.Cover("c06.update.match")
		}
	}
	dmlAudit(db, rows, "after UPDATE SET a")
}

func VF_C06_Delete() {
	db, rows := dmlSetup()
	k := pickConj(2, 2)
	_, _, ab := db.Auto(sysx.Delete("t1", k.expr()))
	vf.Assert(!ab, "delete of a lone transaction is not aborted")
	var left []drow
	for _, r := range rows {
		if k.ref(r.a, r.b) {
			vf.Cover("c06.delete.match")
		} else {
			left = append(left, r)
		}
	}
	dmlAudit(db, left, "after DELETE")
}

// UPDATE of one column of a wide row on a nearly full page: three rows of ~1.3 KB fill the first page, then
// UPDATE t2 SET s = <longer string> WHERE a = k grows one of them by a chosen amount (fits / does not fit:
// the row then has to move to another page). Every row must read back with its reference values.
func VF_C06_GrowUpdateFullPage() {
	db := sysx.Open("vfc06", 32)
	db.CreateTable("t2", []sysx.ColDef{{"a", types.Integer, index_constants.IndexKindInvalid}, {"s", types.Varchar, index_constants.IndexKindInvalid}, {"t", types.Varchar, index_constants.IndexKindInvalid}})
	mk := func(n int, c byte) string {
		b := make([]byte, n)
		for i := range b {
			b[i] = c
		}
		return string(b)
	}
	type wrow struct {
		a    int32
		s, t string
	}
	rows := []wrow{{1, "s1", mk(1300, 'x')}, {2, "s2", mk(1300, 'y')}, {3, "s3", mk(1300, 'z')}}
	for _, r := range rows {
		_, _, ab := db.Auto(sysx.Insert("t2", []string{"a", "s", "t"}, []types.Value{types.NewInteger(r.a), types.NewVarchar(r.s), types.NewVarchar(r.t)}))
		vf.Assert(!ab, "insert is not aborted")
	}
	which := vf.Choose(3)
	grow := []int{20, 90, 130, 400}[vf.Choose(4)] // free space left on the page is ~100 bytes
	vf.Note("grow-row", which)
	vf.Note("grow-by", grow)
	ns := mk(grow, 'n')
	_, _, ab := db.Auto(sysx.Update("t2", []string{"s"}, []types.Value{types.NewVarchar(ns)}, sysx.Cmp("a", expression.Equal, types.NewInteger(rows[which].a), false)))
	vf.Assert(!ab, "update of a lone transaction is not aborted")
	rows[which].s = ns
	got, sc, ab2 := db.SelectAll("t2")
	vf.Assert(!ab2, "scan is not aborted")
	vf.Assert(len(got) == 3, "the table still holds three rows")
	for _, w := range rows {
		n := 0
		for _, g := range got {
			if g.GetValue(sc, 0).ToInteger() == w.a {
				n++
				vf.Assert(g.GetValue(sc, 1).ToVarchar() == w.s, "column s reads back as last stored")
				vf.Assert(g.GetValue(sc, 2).ToVarchar() == w.t, "column t (not named in the UPDATE) is unchanged")
			}
		}
		vf.Assert(n == 1, "every row is there exactly once")
	}
	// the page accepts further work
	_, _, ab3 := db.Auto(sysx.Insert("t2", []string{"a", "s", "t"}, []types.Value{types.NewInteger(4), types.NewVarchar("s4"), types.NewVarchar("t4")}))
	vf.Assert(!ab3, "insert after the update is not aborted")
	got2, _, _ := db.SelectAll("t2")
	vf.Assert(len(got2) == 4, "the new row is there next to the old ones")
	vf.Cover("c06.growupdate")
}

// INSERT with the column list written in any order: values go to the columns they are written for
func VF_C06_InsertColumnOrder() {
	db := sysx.Open("vfc06", 32)
	db.CreateTable("t1", []sysx.ColDef{{"a", types.Integer, index_constants.IndexKindSkipList}, {"b", types.Integer, index_constants.IndexKindInvalid}, {"tag", types.Integer, index_constants.IndexKindInvalid}})
	perms := [][]int{{0, 1, 2}, {0, 2, 1}, {1, 0, 2}, {1, 2, 0}, {2, 0, 1}, {2, 1, 0}}
	p := perms[vf.Choose(6)]
	names := []string{"a", "b", "tag"}
	vals := []int32{vf.I32(), vf.I32(), vf.I32()}
	for _, v := range vals {
		vf.Assume(v != 2147483647 && v != -2147483648)
	}
	var cols []string
	var vs []types.Value
	for _, c := range p {
		cols = append(cols, names[c])
		vs = append(vs, types.NewInteger(vals[c]))
	}
	vf.Note("column-list", cols[0]+","+cols[1]+","+cols[2])
	_, _, ab := db.Auto(sysx.Insert("t1", cols, vs))
	vf.Assert(!ab, "insert is not aborted")
	dmlAudit(db, []drow{{vals[0], vals[1], vals[2]}}, "after INSERT with a permuted column list")
	vf.Cover("c06.insert.order")
}

// UPDATE with two SET clauses written in either order
func VF_C06_UpdateTwoColumns() {
	db, rows := dmlSetup()
	k := pickConj(2, 1)
	na, nb := vf.I32(), vf.I32()
	vf.Assume(na != 2147483647 && na != -2147483648 && nb != 2147483647 && nb != -2147483648)
	cols, vs := []string{"a", "b"}, []types.Value{types.NewInteger(na), types.NewInteger(nb)}
	if vf.Choose(2) == 1 {
		cols, vs = []string{"b", "a"}, []types.Value{types.NewInteger(nb), types.NewInteger(na)}
		vf.Note("set-order", "b,a")
	}
	_, _, ab := db.Auto(sysx.Update("t1", cols, vs, k.expr()))
	vf.Assert(!ab, "update of a lone transaction is not aborted")
	for i := range rows {
		if k.ref(rows[i].a, rows[i].b) {
			rows[i].a, rows[i].b = na, nb
			vf.Cover("c06.update2.match")
		}
	}
	dmlAudit(db, rows, "after UPDATE SET of two columns")
}

func VF_C06_And2_Indexed_Boundary() {
	boundaryInts = true
	andN(2, 1, 2)
}
