//go:build verif

// Package sysx: shared system-level harness helpers (database instance, tables, statements at QueryInfo level).
package sysx

import (
	"github.com/ryogrid/SamehadaDB/lib/catalog"
	"github.com/ryogrid/SamehadaDB/lib/common"
	"github.com/ryogrid/SamehadaDB/lib/execution/plans"
	"github.com/ryogrid/SamehadaDB/lib/execution/executors"
	"github.com/ryogrid/SamehadaDB/lib/execution/expression"
	"github.com/ryogrid/SamehadaDB/lib/parser"
	"github.com/ryogrid/SamehadaDB/lib/planner"
	"github.com/ryogrid/SamehadaDB/lib/planner/optimizer"
	"github.com/ryogrid/SamehadaDB/lib/samehada"
	"github.com/ryogrid/SamehadaDB/lib/samehada/samehada_util"
	"github.com/ryogrid/SamehadaDB/lib/storage/access"
	"github.com/ryogrid/SamehadaDB/lib/storage/index/index_constants"
	"github.com/ryogrid/SamehadaDB/lib/storage/page"
	"github.com/ryogrid/SamehadaDB/lib/zzvf/vf"
	"github.com/ryogrid/SamehadaDB/lib/storage/table/column"
	"github.com/ryogrid/SamehadaDB/lib/storage/table/schema"
	"github.com/ryogrid/SamehadaDB/lib/storage/tuple"
	"github.com/ryogrid/SamehadaDB/lib/types"
)

type DB struct {
	Shi *samehada.SamehadaInstance
	Cat *catalog.Catalog
	Eng *executors.ExecutionEngine
}

// Open builds the components the way samehada.NewSamehadaDB does, minus background threads.
func Open(name string, frames int) *DB {
	shi := samehada.NewSamehadaInstance(name, frames)
	txn := shi.GetTransactionManager().Begin(nil)
	shi.GetLogManager().DeactivateLogging()
	txn.SetIsRecoveryPhase(true)
	c := catalog.BootstrapCatalog(shi.GetBufferPoolManager(), shi.GetLogManager(), shi.GetLockManager(), txn)
	shi.GetBufferPoolManager().FlushAllPages()
	shi.GetTransactionManager().Commit(c, txn)
	shi.GetLogManager().ActivateLogging()
	return &DB{Shi: shi, Cat: c, Eng: &executors.ExecutionEngine{}}
}

type ColDef struct {
	Name  string
	Type  types.TypeID
	Index index_constants.IndexKind
}

func (db *DB) CreateTable(name string, cols []ColDef) *catalog.TableMetadata {
	var cs []*column.Column
	for _, c := range cols {
		cs = append(cs, column.NewColumn(c.Name, c.Type, c.Index != index_constants.IndexKindInvalid, c.Index, types.PageID(-1), nil))
	}
	txn := db.Shi.GetTransactionManager().Begin(nil)
	tm := db.Cat.CreateTable(name, schema.NewSchema(cs), txn)
	db.Shi.GetTransactionManager().Commit(db.Cat, txn)
	return tm
}

// Exec runs one statement given as QueryInfo in the given transaction through the real
// rewrite -> plan -> execute pipeline (what ExecuteSQLRetValues does after parsing).
func (db *DB) Exec(qi *parser.QueryInfo, txn *access.Transaction) (rows []*tuple.Tuple, outSchema *schema.Schema, err error) {
	qi, err = optimizer.RewriteQueryInfo(db.Cat, qi)
	if err != nil {
		return nil, nil, err
	}
	err, plan := planner.NewSimplePlanner(db.Cat, db.Shi.GetBufferPoolManager()).MakePlan(qi, txn)
	if err != nil || plan == nil {
		return nil, nil, err
	}
	ctx := executors.NewExecutorContext(db.Cat, db.Shi.GetBufferPoolManager(), txn)
	rows = db.Eng.Execute(plan, ctx)
	return rows, plan.OutputSchema(), nil
}

// Auto runs one statement as its own transaction (commit, or abort when the executor flagged it).
func (db *DB) Auto(qi *parser.QueryInfo) (rows []*tuple.Tuple, sc *schema.Schema, aborted bool) {
	txn := db.Shi.GetTransactionManager().Begin(nil)
	rows, sc, _ = db.Exec(qi, txn)
	if txn.GetState() == access.ABORTED {
		db.Shi.GetTransactionManager().Abort(db.Cat, txn)
		return nil, sc, true
	}
	db.Shi.GetTransactionManager().Commit(db.Cat, txn)
	return rows, sc, false
}

func sp(s string) *string                       { return &s }

func Insert(table string, cols []string, vals []types.Value) *parser.QueryInfo {
	qi := parser.NewRootSQLVisitor().QueryInfo
	*qi.QueryType = parser.INSERT
	qi.JoinTables_ = []*string{sp(table)}
	for i := range cols {
		qi.TargetCols = append(qi.TargetCols, sp(cols[i]))
		v := vals[i]
		qi.Values = append(qi.Values, &v)
	}
	return qi
}

func Cmp(col string, op expression.ComparisonType, v types.Value, constLeft bool) *parser.BinaryOpExpression {
	if constLeft {
		return &parser.BinaryOpExpression{LogicalOperationType: -1, ComparisonOperationType: op, Left: &v, Right: sp(col)}
	}
	return &parser.BinaryOpExpression{LogicalOperationType: -1, ComparisonOperationType: op, Left: sp(col), Right: &v}
}

func And(a, b *parser.BinaryOpExpression) *parser.BinaryOpExpression {
	return &parser.BinaryOpExpression{LogicalOperationType: expression.AND, ComparisonOperationType: -1, Left: a, Right: b}
}

func Or(a, b *parser.BinaryOpExpression) *parser.BinaryOpExpression {
	return &parser.BinaryOpExpression{LogicalOperationType: expression.OR, ComparisonOperationType: -1, Left: a, Right: b}
}

func Select(table string, cols []string, where *parser.BinaryOpExpression) *parser.QueryInfo {
	qi := parser.NewRootSQLVisitor().QueryInfo
	*qi.QueryType = parser.SELECT
	qi.JoinTables_ = []*string{sp(table)}
	if where != nil {
		qi.WhereExpression = where
	}
	for _, c := range cols {
		qi.SelectFields = append(qi.SelectFields, &parser.SelectFieldExpression{IsAgg: false, AggType: 0, TableName: nil, ColName: sp(c)})
	}
	return qi
}

// ---- real instance life cycle (file-backed disk manager over the engine's file model) ----

type Real struct {
	Sdb *samehada.SamehadaDB
	*DB
}

// OpenReal runs the real samehada.NewSamehadaDB start-up path (fresh database or recovery of an existing
// one). Background threads are never run by the engine; natively they are stopped at once.
func OpenReal(name string, memKB int) *Real {
	common.TempSuppressOnMemStorage = true
	sdb := samehada.NewSamehadaDB(name, memKB)
	sdb.GetSamehadaInstance().GetCheckpointManager().StopCheckpointTh()
	return &Real{Sdb: sdb, DB: &DB{Shi: sdb.GetSamehadaInstance(), Cat: sdb.GetCatalogForTesting(), Eng: &executors.ExecutionEngine{}}}
}

// SelectAll returns every row of a table through the sequential-scan plan (no optimizer involved).
func (db *DB) SelectAll(table string) ([]*tuple.Tuple, *schema.Schema, bool) {
	tm := db.Cat.GetTableByName(table)
	txn := db.Shi.GetTransactionManager().Begin(nil)
	ctx := executors.NewExecutorContext(db.Cat, db.Shi.GetBufferPoolManager(), txn)
	rows := db.Eng.Execute(plans.NewSeqScanPlanNode(db.Cat, tm.Schema(), nil, tm.OID()), ctx)
	if txn.GetState() == access.ABORTED {
		db.Shi.GetTransactionManager().Abort(db.Cat, txn)
		return nil, tm.Schema(), true
	}
	db.Shi.GetTransactionManager().Commit(db.Cat, txn)
	return rows, tm.Schema(), false
}

func Update(table string, setCols []string, setVals []types.Value, where *parser.BinaryOpExpression) *parser.QueryInfo {
	qi := parser.NewRootSQLVisitor().QueryInfo
	*qi.QueryType = parser.UPDATE
	qi.JoinTables_ = []*string{sp(table)}
	for i := range setCols {
		v := setVals[i]
		qi.SetExpressions = append(qi.SetExpressions, &parser.SetExpression{ColName: sp(setCols[i]), UpdateValue: &v})
	}
	if where != nil {
		qi.WhereExpression = where
	}
	return qi
}

func Delete(table string, where *parser.BinaryOpExpression) *parser.QueryInfo {
	qi := parser.NewRootSQLVisitor().QueryInfo
	*qi.QueryType = parser.DELETE
	qi.JoinTables_ = []*string{sp(table)}
	if where != nil {
		qi.WhereExpression = where
	}
	return qi
}

// SelectJoin: SELECT <fields> FROM t1 JOIN t2 ON l = r [WHERE ...]; fields and ON columns are written qualified.
func SelectJoin(t1, t2 string, fields [][2]string, onL, onR string, where *parser.BinaryOpExpression) *parser.QueryInfo {
	qi := parser.NewRootSQLVisitor().QueryInfo
	*qi.QueryType = parser.SELECT
	qi.JoinTables_ = []*string{sp(t1), sp(t2)}
	for _, f := range fields {
		qi.SelectFields = append(qi.SelectFields, &parser.SelectFieldExpression{IsAgg: false, AggType: 0, TableName: sp(f[0]), ColName: sp(f[1])})
	}
	qi.OnExpressions = &parser.BinaryOpExpression{LogicalOperationType: -1, ComparisonOperationType: expression.Equal, Left: sp(onL), Right: sp(onR)}
	if where != nil {
		qi.WhereExpression = where
	}
	return qi
}

// Pins returns the pin count of every resident page that is pinned.
func (db *DB) Pins() map[types.PageID]int32 {
	m := map[types.PageID]int32{}
	for _, pg := range db.Shi.GetBufferPoolManager().GetPages() {
		if pg != nil && pg.PinCount() != 0 {
			m[pg.GetPageID()] += pg.PinCount()
		}
	}
	return m
}

// SamePins: no page is pinned afterwards (b) that was not pinned before (a). The property is about frames
// becoming unavailable; the start node of a skip list is pinned for good and its pin COUNT grows with every
// traversal that leaves it (FindNode never undoes IncPinOfPage(startNode)) - that does not take a frame away
// and is reported in DESIGN.md as an observation, not as a violation.
func SamePins(a, b map[types.PageID]int32) bool {
	for k := range b {
		if _, ok := a[k]; !ok {
			return false
		}
	}
	return true
}

// UpdateStats does what the statistics updater thread does for one table.
func (db *DB) UpdateStats(table string) {
	tm := db.Cat.GetTableByName(table)
	txn := db.Shi.GetTransactionManager().Begin(nil)
	tm.GetStatistics().Update(tm, txn)
	db.Shi.GetTransactionManager().Commit(db.Cat, txn)
}

// HeapRow is one row as the heap holds it.
type HeapRow struct {
	RID  page.RID
	Vals []types.Value
}

// HeapRows scans the table heap directly (no executor) in a fresh transaction that is committed.
func (db *DB) HeapRows(table string) []HeapRow {
	tm := db.Cat.GetTableByName(table)
	txn := db.Shi.GetTransactionManager().Begin(nil)
	var out []HeapRow
	it := tm.Table().Iterator(txn)
	for t := it.Current(); !it.End(); t = it.Next() {
		r := HeapRow{RID: *t.GetRID()}
		for c := uint32(0); c < tm.Schema().GetColumnCount(); c++ {
			r.Vals = append(r.Vals, t.GetValue(tm.Schema(), c))
		}
		out = append(out, r)
	}
	db.Shi.GetTransactionManager().Commit(db.Cat, txn)
	return out
}

// IndexAudit checks (with vf.Assert) that the index on integer column col agrees with the heap:
// every index entry names a live row holding that key, every live row is listed exactly once, entries come
// in key order, and a point lookup of every stored key returns exactly the rows holding it.
func (db *DB) IndexAudit(table string, col int, what string) {
	tm := db.Cat.GetTableByName(table)
	idx := tm.GetIndex(col)
	rows := db.HeapRows(table)
	txn := db.Shi.GetTransactionManager().Begin(nil)
	it := idx.GetRangeScanIterator(nil, nil, txn)
	seen := make([]int, len(rows))
	n := 0
	var prev int32
	for done, _, key, rid := it.Next(); !done; done, _, key, rid = it.Next() {
		if key.ValueType() == types.Varchar {
			// non-unique skip-list index: the container key is the order-preserving encoding of (key, rid)
			key = samehada_util.ExtractOrgKeyFromDicOrderComparableEncodedVarchar(key, types.Integer)
		}
		k := key.ToInteger()
		if n > 0 {
			vf.Assert(prev <= k, what+": index scan returns entries in key order")
		}
		prev = k
		n++
		hit := false
		for i, r := range rows {
			if r.RID.PageID == rid.PageID && r.RID.SlotNum == rid.SlotNum {
				hit = true
				seen[i]++
				vf.Assert(r.Vals[col].ToInteger() == k, what+": index entry's key is the value its row holds")
			}
		}
		vf.Assert(hit, what+": every index entry points to a live row")
	}
	for i := range rows {
		vf.Assert(seen[i] == 1, what+": every live row is listed by the index exactly once")
	}
	for _, r := range rows {
		kv := r.Vals[col]
		rids := idx.ScanKey(tuple.GenTupleForIndexSearch(tm.Schema(), uint32(col), &kv), txn)
		want := 0
		for _, o := range rows {
			if o.Vals[col].ToInteger() == kv.ToInteger() {
				want++
			}
		}
		vf.Assert(len(rids) == want, what+": point lookup returns exactly the rows holding the key")
	}
	db.Shi.GetTransactionManager().Commit(db.Cat, txn)
	vf.Cover("index-audit")
}

// CmpCols: <l> op <r> with a column on both sides (both written qualified).
func CmpCols(l string, op expression.ComparisonType, r string) *parser.BinaryOpExpression {
	return &parser.BinaryOpExpression{LogicalOperationType: -1, ComparisonOperationType: op, Left: sp(l), Right: sp(r)}
}
