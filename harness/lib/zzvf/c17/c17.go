//go:build verif

// C17 — each index container behaves as a sorted map (sequential half): the real paged skip list
// (SkipList, SkipListBlockPage, SkipListHeaderPage, SkipListIterator over the real buffer pool) against a
// reference map, for every relative order of symbolic keys.
package c17

import (
	"github.com/ryogrid/SamehadaDB/lib/container/skip_list"
	"github.com/ryogrid/SamehadaDB/lib/recovery"
	"github.com/ryogrid/SamehadaDB/lib/samehada/samehada_util"
	"github.com/ryogrid/SamehadaDB/lib/storage/buffer"
	"github.com/ryogrid/SamehadaDB/lib/storage/disk"
	"github.com/ryogrid/SamehadaDB/lib/storage/page"
	"github.com/ryogrid/SamehadaDB/lib/storage/page/skip_list_page"
	"github.com/ryogrid/SamehadaDB/lib/types"
	"github.com/ryogrid/SamehadaDB/lib/zzvf/vf"
)

type entry struct {
	k int32
	v uint64
}

type world struct {
	sl    *skip_list.SkipList
	bpm   *buffer.BufferPoolManager
	model []entry // kept sorted by key (ties impossible: the container is a map)
	long  bool
}

func open(long bool) *world {
	dm := disk.NewVirtualDiskManagerImpl("vfc17.db")
	lm := recovery.NewLogManager(&dm)
	bpm := buffer.NewBufferPoolManager(32, dm, lm)
	kt := types.Integer
	if long {
		kt = types.Varchar
	}
	return &world{sl: skip_list.NewSkipList(bpm, kt, lm), bpm: bpm, long: long}
}

var pad = func() string {
	b := make([]byte, 249) // 250-byte keys: within the varchar limit (255), about 14 entries per node
	for i := range b {
		b[i] = 'p'
	}
	return string(b)
}()

// key value: integers directly; "long" keys are ~1.3 KB strings ordered like the integer (3 entries per node)
func (w *world) key(k int32) *types.Value {
	if !w.long {
		v := types.NewInteger(k)
		return &v
	}
	v := types.NewVarchar(pad + string([]byte{byte('0' + k)}))
	return &v
}

func (w *world) newKey() int32 {
	k := vf.I32()
	if w.long {
		vf.Assume(k >= 0 && k < 64)
	} else {
		vf.Assume(k != 2147483647 && k != -2147483648)
	}
	return k
}

func (w *world) find(k int32) int {
	for i, e := range w.model {
		if e.k == k {
			return i
		}
	}
	return -1
}

func pins(bpm *buffer.BufferPoolManager) int32 {
	var n int32
	for _, pg := range bpm.GetPages() {
		if pg != nil && pg.PinCount() > 0 {
			n++ // pages that are pinned (the start node's pin COUNT grows by design of FindNode; see DESIGN.md)
		}
	}
	return n
}

func (w *world) audit(what string, probe bool) {
	// full scan: sorted, duplicate free, equal to the model
	it := w.sl.Iterator(nil, nil)
	i := 0
	for done, _, key, rid := it.Next(); !done; done, _, key, rid = it.Next() {
		vf.Assert(i < len(w.model), what+": scan returns no entry that is not stored")
		var gotK int32
		if w.long {
			s := key.ToVarchar()
			gotK = int32(s[len(s)-1] - '0')
		} else {
			gotK = key.ToInteger()
		}
		vf.Assert(gotK == w.model[i].k, what+": scan returns the stored keys in key order")
		vf.Assert(samehada_util.PackRIDtoUint64(rid) == w.model[i].v, what+": scan returns the value stored under the key")
		i++
	}
	vf.Assert(i == len(w.model), what+": scan returns every stored entry")
	// point lookups: every stored key and one arbitrary key
	for _, e := range w.model {
		vf.Assert(w.sl.GetValue(w.key(e.k)) == e.v, what+": lookup of a stored key returns its value")
	}
	if !probe {
		vf.Cover("c17.audit")
		return
	}
	q := w.newKey()
	got := w.sl.GetValue(w.key(q))
	if j := w.find(q); j >= 0 {
		vf.Assert(got == w.model[j].v, what+": lookup of an arbitrary key returns its value")
	} else {
		vf.Assert(got == ^uint64(0), what+": lookup of an absent key reports absence")
	}
	vf.Cover("c17.audit")
}

// a range scan that starts exactly at a stored key returns that entry first, then the following ones
func (w *world) rangeFromEachStored() {
	for i, e := range w.model {
		it := w.sl.Iterator(w.key(e.k), nil)
		n := 0
		for done, _, _, rid := it.Next(); !done; done, _, _, rid = it.Next() {
			if n < 2 && i+n < len(w.model) {
				vf.Assert(samehada_util.PackRIDtoUint64(rid) == w.model[i+n].v, "a range scan starting at a stored key returns that entry first and its successor next")
			}
			n++
		}
		vf.Assert(n == len(w.model)-i, "a range scan starting at a stored key returns it and every larger entry")
	}
	vf.Cover("c17.range-from-stored")
}

func (w *world) rangeAudit() {
	lo, hi := w.newKey(), w.newKey()
	it := w.sl.Iterator(w.key(lo), w.key(hi))
	var want []entry
	for _, e := range w.model {
		if e.k >= lo && e.k <= hi {
			want = append(want, e)
		}
	}
	i := 0
	for done, _, _, rid := it.Next(); !done; done, _, _, rid = it.Next() {
		vf.Assert(i < len(want), "range scan returns no entry outside the bounds")
		vf.Assert(samehada_util.PackRIDtoUint64(rid) == want[i].v, "range scan returns the in-range entries in key order")
		i++
	}
	vf.Assert(i == len(want), "range scan returns every in-range entry")
	vf.Cover("c17.range")
}

var opNames = []string{"insert", "remove", "remove-stored"}

func (w *world) step(n int) {
	op := vf.Choose(3)
	vf.Note("op", opNames[op])
	before := pins(w.bpm)
	switch op {
	case 0:
		k := w.newKey()
		v := samehada_util.PackRIDtoUint64(&page.RID{PageID: types.PageID(n + 1), SlotNum: uint32(n)})
		w.sl.Insert(w.key(k), v)
		if j := w.find(k); j >= 0 {
			w.model[j].v = v
			vf.Cover("c17.overwrite")
		} else {
			pos := 0
			for pos < len(w.model) && w.model[pos].k < k {
				pos++
			}
			w.model = append(w.model, entry{})
			copy(w.model[pos+1:], w.model[pos:])
			w.model[pos] = entry{k, v}
		}
	case 1:
		k := w.newKey()
		got := w.sl.Remove(w.key(k), 0)
		j := w.find(k)
		vf.Assert(got == (j >= 0), "remove reports whether the key was stored")
		if j >= 0 {
			w.model = append(w.model[:j], w.model[j+1:]...)
			vf.Cover("c17.removed")
		}
	case 2:
		if len(w.model) == 0 {
			vf.Assume(false)
		}
		j := vf.Choose(len(w.model))
		vf.Assert(w.sl.Remove(w.key(w.model[j].k), 0), "removing a stored key succeeds")
		w.model = append(w.model[:j], w.model[j+1:]...)
		vf.Cover("c17.removed")
	}
	vf.Assert(pins(w.bpm) == before, "operation releases its pins")
}

// prefill with concrete keys (no forks) so that the symbolic operations hit node splits / node removal
func (w *world) prefill(n int) {
	for i := 0; i < n; i++ {
		k := int32(2*i + 2)
		v := samehada_util.PackRIDtoUint64(&page.RID{PageID: types.PageID(1000 + i), SlotNum: uint32(i)})
		w.sl.Insert(w.key(k), v)
		w.model = append(w.model, entry{k, v})
	}
}

func historyPrefilled(pre, k int, levels int) {
	w := open(true)
	w.prefill(pre)
	vf.RandBudget(levels)
	for i := 0; i < k; i++ {
		w.step(i)
		w.audit("after operation", false) // full scan + lookup of every stored key (no extra symbolic probe)
	}
	w.rangeFromEachStored()
}

func history(k int, long bool, levels int) {
	w := open(long)
	vf.RandBudget(levels)
	for i := 0; i < k; i++ {
		w.step(i)
		w.audit("after operation", i == k-1)
	}
	w.rangeAudit()
}

func VF_C17_Int_K2() { history(2, false, 0) }
func VF_C17_Int_K3() { history(3, false, 0) }
func VF_C17_Int_K4() { history(4, false, 0) }

// long keys: three entries fill a node, so splits, emptied nodes and node removal happen
func VF_C17_Split_K1()    { historyPrefilled(14, 1, 0) }
func VF_C17_Split_K2()    { historyPrefilled(14, 2, 0) }
func VF_C17_Split_K2_Lv() { historyPrefilled(14, 2, 2) }
func VF_C17_Split2_K2()   { historyPrefilled(28, 2, 0) }

func VF_C17_Dbg10() { historyPrefilled(10, 1, 0) }
func VF_C17_Dbg13() { historyPrefilled(13, 1, 0) }
func VF_C17_DbgConc() {
	w := open(true)
	w.prefill(14)
	w.audit("prefill", false)
	v := types.NewVarchar(pad + []string{"1", "3", "o", "5", "M"}[vf.Choose(5)])
	w.sl.Insert(&v, 77)
	it := w.sl.Iterator(nil, nil)
	n := 0
	for done, _, _, _ := it.Next(); !done; done, _, _, _ = it.Next() {
		n++
	}
	vf.Assert(n == 15, "15 entries")
}

func dumpNodes(w *world, tag string) {
	hp := skip_list_page.FetchAndCastToHeaderPage(w.bpm, w.sl.GetHeaderPageID())
	id := hp.GetListStartPageID()
	w.bpm.UnpinPage(hp.GetPageID(), false)
	for n := 0; n < 6 && id != types.PageID(-1); n++ {
		nd := skip_list_page.FetchAndCastToBlockPage(w.bpm, id)
		cnt := nd.GetEntryCnt()
		vf.Note(tag+" node", int(id))
		vf.Note(tag+" cnt", int(cnt))
		vf.Note(tag+" fsp", int(nd.GetFreeSpacePointer()))
		for i := 0; i < int(cnt) && i < 20; i++ {
			vf.Note(tag+" off", int(nd.GetEntryOffset(i)))
			vf.Note(tag+" size", int(nd.GetEntrySize(i)))
		}
		next := nd.GetForwardEntry(0)
		w.bpm.UnpinPage(id, false)
		id = next
	}
}

func VF_C17_DbgSym() {
	w := open(true)
	w.prefill(14)
	k := vf.I32()
	vf.Assume(k == 14)
	dumpNodes(w, "pre")
	w.sl.Insert(w.key(k), 77)
	dumpNodes(w, "post")
	vf.Assert(false, "stop")
}
