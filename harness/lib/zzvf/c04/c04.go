//go:build verif

// C04 — statements see committed data plus their own writes, or abort.
// C05 — committed transactions are serializable on the rows they touch.
// Two transactions with small statement programs run interleaved at statement granularity (every
// schedule = a fork); everything executes the real executors / heap / lock manager / indexes.
package c04

import (
	"github.com/ryogrid/SamehadaDB/lib/execution/expression"
	"github.com/ryogrid/SamehadaDB/lib/parser"
	"github.com/ryogrid/SamehadaDB/lib/storage/access"
	"github.com/ryogrid/SamehadaDB/lib/storage/index/index_constants"
	"github.com/ryogrid/SamehadaDB/lib/types"
	"github.com/ryogrid/SamehadaDB/lib/zzvf/sysx"
	"github.com/ryogrid/SamehadaDB/lib/zzvf/vf"
)

type row struct {
	a int32 // indexed key (symbolic)
	v int32 // payload: a concrete value unique per write, so it names the version
}

type state map[int32]row // tag -> row

func (s state) clone() state {
	n := state{}
	for k, r := range s {
		n[k] = r
	}
	return n
}

const (
	readPoint = iota
	readAll
	readRange
	updVByKey
	delByTag
	insertRow
	updKeyByTag
)

var kinds = []string{"read-index-point", "read-seq-all", "read-index-range", "update-v-by-key", "delete-by-tag", "insert", "update-key-by-tag"}

type stmt struct {
	kind int
	tag  int32 // delByTag, updKeyByTag, insertRow (new tag)
	key  int32 // readPoint, updVByKey: addressed key; readRange: lower bound; insertRow / updKeyByTag: new key
	nv   int32 // value written
}

type obs struct{ tag, a, v int32 }

// reference semantics of one statement on a state: rows read (in tag order) and the new state
func apply(s state, st stmt, maxTag int32) (reads []obs, out state) {
	out = s.clone()
	for tag := int32(1); tag <= maxTag; tag++ {
		r, ok := s[tag]
		if !ok {
			continue
		}
		switch st.kind {
		case readPoint:
			if r.a == st.key {
				reads = append(reads, obs{tag, r.a, r.v})
			}
		case readAll:
			reads = append(reads, obs{tag, r.a, r.v})
		case readRange:
			if r.a >= st.key {
				reads = append(reads, obs{tag, r.a, r.v})
			}
		case updVByKey:
			if r.a == st.key {
				r.v = st.nv
				out[tag] = r
			}
		case delByTag:
			if tag == st.tag {
				delete(out, tag)
			}
		case updKeyByTag:
			if tag == st.tag {
				r.a = st.key
				out[tag] = r
			}
		}
	}
	if st.kind == insertRow {
		out[st.tag] = row{st.key, st.nv}
	}
	return
}

func (st stmt) query() *parser.QueryInfo {
	never := sysx.Cmp("tag", expression.Equal, types.NewInteger(-5), false)
	switch st.kind {
	case readPoint:
		return sysx.Select("t1", []string{"a", "tag", "v"}, sysx.Cmp("a", expression.Equal, types.NewInteger(st.key), false))
	case readAll:
		return sysx.Select("t1", []string{"a", "tag", "v"}, sysx.Or(sysx.Cmp("v", expression.GreaterThanOrEqual, types.NewInteger(0), false), never))
	case readRange:
		return sysx.Select("t1", []string{"a", "tag", "v"}, sysx.Cmp("a", expression.GreaterThanOrEqual, types.NewInteger(st.key), false))
	case updVByKey:
		return sysx.Update("t1", []string{"v"}, []types.Value{types.NewInteger(st.nv)}, sysx.Cmp("a", expression.Equal, types.NewInteger(st.key), false))
	case delByTag:
		return sysx.Delete("t1", sysx.Or(sysx.Cmp("tag", expression.Equal, types.NewInteger(st.tag), false), never))
	case insertRow:
		return sysx.Insert("t1", []string{"a", "tag", "v"}, []types.Value{types.NewInteger(st.key), types.NewInteger(st.tag), types.NewInteger(st.nv)})
	default:
		return sysx.Update("t1", []string{"a"}, []types.Value{types.NewInteger(st.key)}, sysx.Or(sysx.Cmp("tag", expression.Equal, types.NewInteger(st.tag), false), never))
	}
}

type rowWrite struct {
	tag     int32
	deleted bool
	r       row
}

type txnModel struct {
	txn   *access.Transaction
	wr    []rowWrite // row-level effects of its completed statements, in order
	prog  []stmt
	seen  [][]obs // what each completed statement returned (reads only)
	alive bool
	id    int
}

type world struct {
	db        *sysx.DB
	initial   state
	committed state
	t         [2]*txnModel
	nextVal   int32
	nextTag   int32
	commitOrd []int
}

func val() int32 {
	v := vf.I32()
	vf.Assume(v != 2147483647 && v != -2147483648)
	return v
}

func setup(nrows int) *world {
	db := sysx.Open("vfc04", 32)
	db.CreateTable("t1", []sysx.ColDef{{"a", types.Integer, index_constants.IndexKindSkipList}, {"tag", types.Integer, index_constants.IndexKindInvalid}, {"v", types.Integer, index_constants.IndexKindInvalid}})
	w := &world{db: db, committed: state{}, nextVal: 2000, nextTag: 1}
	for i := 0; i < nrows; i++ {
		r := row{a: val(), v: int32(1000 + i)}
		tag := w.nextTag
		w.nextTag++
		_, _, ab := db.Auto(sysx.Insert("t1", []string{"a", "tag", "v"}, []types.Value{types.NewInteger(r.a), types.NewInteger(tag), types.NewInteger(r.v)}))
		vf.Assert(!ab, "setup insert is not aborted")
		w.committed[tag] = r
	}
	w.initial = w.committed.clone()
	for i := 0; i < 2; i++ {
		w.t[i] = &txnModel{txn: db.Shi.GetTransactionManager().Begin(nil), alive: true, id: i}
	}
	return w
}

// what the transaction must see: the committed state with its own earlier statements applied
func (w *world) view(t *txnModel) state {
	s := w.committed.clone()
	for _, x := range t.wr {
		if x.deleted {
			delete(s, x.tag)
		} else {
			s[x.tag] = x.r
		}
	}
	return s
}

func (w *world) pick(t *txnModel) stmt {
	st := stmt{kind: vf.Choose(len(kinds))}
	view := w.view(t)
	var tags []int32
	for tag := int32(1); tag < w.nextTag; tag++ {
		if _, ok := view[tag]; ok {
			tags = append(tags, tag)
		}
	}
	needRow := st.kind == readPoint || st.kind == updVByKey || st.kind == delByTag || st.kind == updKeyByTag
	if needRow && len(tags) == 0 {
		vf.Assume(false)
	}
	switch st.kind {
	case readPoint, updVByKey:
		st.key = view[tags[vf.Choose(len(tags))]].a
	case readRange:
		st.key = val()
	case delByTag:
		st.tag = tags[vf.Choose(len(tags))]
	case insertRow:
		st.tag, st.key = w.nextTag, val()
		w.nextTag++
	case updKeyByTag:
		st.tag, st.key = tags[vf.Choose(len(tags))], val()
	}
	w.nextVal++
	st.nv = w.nextVal
	return st
}

func sameReads(got, want []obs) bool {
	ok := len(got) == len(want)
	for _, x := range want {
		hit := 0
		for _, y := range got {
			if y.tag == x.tag && y.a == x.a && y.v == x.v {
				hit++
			}
		}
		ok = ok && hit == 1
	}
	return ok
}

func (w *world) run(t *txnModel) {
	st := w.pick(t)
	vf.Note("turn", t.id)
	vf.Note("stmt", kinds[st.kind])
	before := w.view(t)
	want, after := apply(before, st, w.nextTag)
	rows, sc, _ := w.db.Exec(st.query(), t.txn)
	if t.txn.GetState() == access.ABORTED {
		// what ExecuteSQLRetValues does with a statement that flagged its transaction
		w.db.Shi.GetTransactionManager().Abort(w.db.Cat, t.txn)
		t.alive = false
		vf.Cover("c04.aborted")
		return
	}
	var got []obs
	if st.kind <= readRange {
		for _, r := range rows {
			got = append(got, obs{r.GetValue(sc, 1).ToInteger(), r.GetValue(sc, 0).ToInteger(), r.GetValue(sc, 2).ToInteger()})
		}
		// C04: exactly the rows of (committed + own writes) matching the predicate, in their committed/own version
		vf.Assert(sameReads(got, want), "a completed read returns exactly the committed-or-own rows matching its predicate")
		vf.Cover("c04.read.completed")
	} else {
		vf.Cover("c04.write.completed")
	}
	// row-level effects of the statement as determined when it ran (a later commit of the other transaction
	// must not re-evaluate the predicate: rows that newly match are phantoms)
	for tag := int32(1); tag < w.nextTag; tag++ {
		b, inB := before[tag]
		a, inA := after[tag]
		switch {
		case inB && !inA:
			t.wr = append(t.wr, rowWrite{tag: tag, deleted: true})
		case inA && (!inB || a != b):
			t.wr = append(t.wr, rowWrite{tag: tag, r: a})
		}
	}
	t.prog = append(t.prog, st)
	t.seen = append(t.seen, got)
}

func (w *world) finish(t *txnModel) {
	if !t.alive {
		return
	}
	if vf.Choose(2) == 0 {
		w.committed = w.view(t)
		w.db.Shi.GetTransactionManager().Commit(w.db.Cat, t.txn)
		w.commitOrd = append(w.commitOrd, t.id)
		vf.Cover("c04.committed")
	} else {
		w.db.Shi.GetTransactionManager().Abort(w.db.Cat, t.txn)
	}
	t.alive = false
}

func (w *world) final() state {
	rows, sc, ab := w.db.SelectAll("t1")
	vf.Assert(!ab, "final scan is not aborted")
	got := state{}
	for _, r := range rows {
		tag := r.GetValue(sc, 1).ToInteger()
		_, dup := got[tag]
		vf.Assert(!dup, "no row appears twice in the final table")
		got[tag] = row{r.GetValue(sc, 0).ToInteger(), r.GetValue(sc, 2).ToInteger()}
	}
	return got
}

func sameState(a, b state) bool {
	ok := len(a) == len(b)
	for tag, r := range a {
		o, there := b[tag]
		ok = ok && there && o.a == r.a && o.v == r.v
	}
	return ok
}

// C04 at the end: the table holds exactly what the committed transactions' statements (as the harness
// applied them to the committed view) produce.
func (w *world) auditC04() {
	vf.Assert(sameState(w.final(), w.committed), "final table holds exactly the effects of the committed transactions")
	w.db.IndexAudit("t1", 0, "final")
}

// C05: some serial order of the committed transactions explains both the final table and every row version
// the committed transactions read (rows inserted by the other transaction are exempt: phantoms).
func (w *world) auditC05() {
	final := w.final()
	serial := func(order []int) bool {
		s := w.initial.clone()
		ok := true
		for _, id := range order {
			t := w.t[id]
			for i, st := range t.prog {
				var want []obs
				want, s2 := apply(s, st, w.nextTag)
				if st.kind <= readRange {
					// compare on rows of the initial state only (phantom exemption)
					var g, wnt []obs
					for _, o := range t.seen[i] {
						if _, init := w.initial[o.tag]; init {
							g = append(g, o)
						}
					}
					for _, o := range want {
						if _, init := w.initial[o.tag]; init {
							wnt = append(wnt, o)
						}
					}
					ok = ok && sameReads(g, wnt)
				}
				s = s2
			}
		}
		return ok && sameState(final, s)
	}
	switch len(w.commitOrd) {
	case 0:
		vf.Assert(sameState(final, w.initial), "no committed transaction: table unchanged")
	case 1:
		vf.Assert(serial(w.commitOrd), "one committed transaction: table and reads equal its serial execution")
	case 2:
		a := serial([]int{w.commitOrd[0], w.commitOrd[1]})
		b := serial([]int{w.commitOrd[1], w.commitOrd[0]})
		vf.Assert(a || b, "two committed transactions: table and reads equal one of the two serial orders")
		vf.Cover("c05.both-committed")
	}
}

func program(nrows, n0, n1 int, c05 bool) {
	w := setup(nrows)
	left := [2]int{n0, n1}
	for left[0]+left[1] > 0 {
		var who int
		switch {
		case left[0] == 0 || !w.t[0].alive:
			who = 1
		case left[1] == 0 || !w.t[1].alive:
			who = 0
		default:
			who = vf.Choose(2)
		}
		if !w.t[who].alive {
			left[who] = 0
			continue
		}
		w.run(w.t[who])
		left[who]--
	}
	first := vf.Choose(2)
	w.finish(w.t[first])
	w.finish(w.t[1-first])
	if c05 {
		w.auditC05()
	} else {
		w.auditC04()
	}
}

func VF_C04_P11()    { program(1, 1, 1, false) }
func VF_C04_P21()    { program(1, 2, 1, false) }
func VF_C04_P22()    { program(1, 2, 2, false) }
func VF_C04_R2_P11() { program(2, 1, 1, false) }
func VF_C05_P11()    { program(1, 1, 1, true) }
func VF_C05_P21()    { program(1, 2, 1, true) }
func VF_C05_P22()    { program(1, 2, 2, true) }
func VF_C05_R2_P11() { program(2, 1, 1, true) }

// one transaction alone with two statements: it must see its own writes (e.g. delete, then read through the index)
func VF_C04_Own_2() { program(1, 2, 0, false) }
func VF_C04_Own_3() { program(1, 3, 0, false) }
