//go:build verif

// C12 — concurrent SQL calls are answered once, atomically and in a serial order (Part A: the request
// protocol). The real RequestManager (AppendRequest / Run / executeQuedTxns / handleAbortedByCCTxn / StopTh)
// and SamehadaDB.ExecuteSQL / ExecuteSQLForTxnTh run as real goroutines under the engine's cooperative
// scheduler: every schedule at channel / mutex granularity is a fork. Statement execution itself is
// replaced by a hook whose outcome per attempt is a choice (success, aborted by concurrency control at most
// A times, other error): the statement-level guarantees are C04/C05.
package c12

import (
	"errors"

	"github.com/ryogrid/SamehadaDB/lib/samehada"
	"github.com/ryogrid/SamehadaDB/lib/types"
	"github.com/ryogrid/SamehadaDB/lib/zzvf/vf"
)

type result struct {
	err error
	res [][]interface{}
}

func scenario(callers int, maxAborts int, preempt int, withError bool) {
	vf.Sched("RequestManager).Run,ExecuteSQLForTxnTh,c12.scenario")
	vf.SchedPreempt(preempt)
	db := samehada.NewSamehadaDB("vfc12", 200)
	effects := map[string]int{}  // successful executions per statement
	attempts := map[string]int{} // all executions per statement
	aborts := 0
	otherErr := errors.New("some other error")
	samehada.SetVFExecSQLHook(func(sdb *samehada.SamehadaDB, sql string) (error, [][]*types.Value) {
		attempts[sql]++
		// outcome of this attempt: success | aborted by concurrency control (bounded) | other error
		menu := []int{0}
		if aborts < maxAborts {
			menu = append(menu, 2)
		}
		if withError {
			menu = append(menu, 1)
		}
		switch menu[vf.Choose(len(menu))] {
		case 0:
			effects[sql]++
			v := types.NewVarchar(sql)
			return nil, [][]*types.Value{{&v}}
		case 1:
			return otherErr, nil
		default:
			aborts++
			return samehada.QueryAbortedErr, nil
		}
	})
	names := []string{"q0", "q1", "q2"}
	done := make(chan int, callers)
	results := make([]result, callers)
	for i := 0; i < callers; i++ {
		i := i
		go func() {
			err, res := db.ExecuteSQL(names[i])
			results[i] = result{err, res}
			done <- i
		}()
	}
	for i := 0; i < callers; i++ {
		<-done
	}
	vf.Cover("c12.all-answered")
	for i := 0; i < callers; i++ {
		r := results[i]
		if r.err == nil {
			vf.Assert(len(r.res) == 1 && len(r.res[0]) == 1 && r.res[0][0].(string) == names[i], "a caller receives the result of its own statement")
			vf.Assert(effects[names[i]] == 1, "a statement answered with success took effect exactly once")
			vf.Cover("c12.success")
		} else {
			vf.Assert(withError && r.err == otherErr, "an error reply is the statement's own error (an internal abort is retried, not reported)")
			vf.Assert(effects[names[i]] == 0, "a statement answered with an error took no effect")
			vf.Cover("c12.error")
		}
		vf.Assert(attempts[names[i]] >= 1, "every statement was executed")
	}
	if aborts > 0 {
		vf.Cover("c12.retried")
	}
	db.Shutdown()
	vf.Cover("c12.shutdown")
}

func VF_C12_One()    { scenario(1, 1, 1, true) }
func VF_C12_One_P2() { scenario(1, 2, 2, true) }
func VF_C12_Two()    { scenario(2, 1, 0, false) }
func VF_C12_Two_E()  { scenario(2, 1, 0, true) }
func VF_C12_Two_P1() { scenario(2, 1, 1, false) }
func VF_C12_Three()  { scenario(3, 1, 0, false) }
