//go:build verif

// C08 — write-ahead discipline at the storage boundary.
// The components are wired as samehada.NewSamehadaInstance wires them, with the real DiskManagerImpl wrapped
// by a monitor (plain Go, so the same monitor runs natively for replay): at every WritePage of a page of the
// user table the page LSN must not exceed the highest LSN contained in the log bytes already handed to
// WriteLog; when Commit of a writing transaction returns, its COMMIT record must be in those bytes; the log
// stream must parse (real LogRecovery.DeserializeLogRecord) into complete records with increasing LSNs.
package c08

import (
	"github.com/ryogrid/SamehadaDB/lib/catalog"
	"github.com/ryogrid/SamehadaDB/lib/common"
	"github.com/ryogrid/SamehadaDB/lib/concurrency"
	"github.com/ryogrid/SamehadaDB/lib/execution/executors"
	"github.com/ryogrid/SamehadaDB/lib/execution/expression"
	"github.com/ryogrid/SamehadaDB/lib/parser"
	"github.com/ryogrid/SamehadaDB/lib/planner"
	"github.com/ryogrid/SamehadaDB/lib/planner/optimizer"
	"github.com/ryogrid/SamehadaDB/lib/recovery"
	"github.com/ryogrid/SamehadaDB/lib/recovery/log_recovery"
	"github.com/ryogrid/SamehadaDB/lib/storage/access"
	"github.com/ryogrid/SamehadaDB/lib/storage/buffer"
	"github.com/ryogrid/SamehadaDB/lib/storage/disk"
	"github.com/ryogrid/SamehadaDB/lib/storage/index/index_constants"
	"github.com/ryogrid/SamehadaDB/lib/storage/table/column"
	"github.com/ryogrid/SamehadaDB/lib/storage/table/schema"
	"github.com/ryogrid/SamehadaDB/lib/types"
	"github.com/ryogrid/SamehadaDB/lib/zzvf/sysx"
	"github.com/ryogrid/SamehadaDB/lib/zzvf/vf"
)

type monitor struct {
	disk.DiskManager
	userPages      map[types.PageID]bool
	logBytes       []byte
	parsed         int
	maxLSN         types.LSN // greatest LSN on stable storage (its WriteLog has returned)
	seenLSN        types.LSN // greatest LSN handed to WriteLog
	pendingCommits []types.TxnID
	commits        map[types.TxnID]bool
	lastLSN        map[types.TxnID]types.LSN
	parser         *log_recovery.LogRecovery
	active         bool
	events         []pageEvt
}

type pageEvt struct {
	id        types.PageID
	lsn, seen types.LSN
}

func (m *monitor) WriteLog(data []byte) error {
	if !m.active {
		return m.DiskManager.WriteLog(data)
	}
	m.logBytes = append(m.logBytes, data...)
	stable := m.maxLSN
	for {
		var rec recovery.LogRecord
		if !m.parser.DeserializeLogRecord(m.logBytes[m.parsed:], &rec) {
			break
		}
		if rec.Lsn >= 0 {
			vf.Assert(rec.Lsn > m.seenLSN, "log records reach the log file in increasing LSN order")
			m.seenLSN = rec.Lsn
			stable = rec.Lsn
			if prev, ok := m.lastLSN[rec.TxnID]; ok {
				vf.Assert(rec.PrevLSN == prev, "each record names the previous record of its transaction")
			}
			m.lastLSN[rec.TxnID] = rec.Lsn
		}
		if rec.LogRecordType == recovery.COMMIT {
			m.pendingCommits = append(m.pendingCommits, rec.TxnID)
		}
		m.parsed += int(rec.Size)
	}
	vf.Assert(m.parsed == len(m.logBytes), "every log write ends on a record boundary (the file is a sequence of complete records)")
	vf.Cover("c08.logwrite")
	// the write takes a while: under the scheduler other goroutines may run before the bytes are stable
	vf.Yield()
	err := m.DiskManager.WriteLog(data)
	// only now the records are on stable storage
	if stable > m.maxLSN {
		m.maxLSN = stable
	}
	for _, id := range m.pendingCommits {
		m.commits[id] = true
	}
	m.pendingCommits = nil
	return err
}

func (m *monitor) WritePage(id types.PageID, data []byte) error {
	if m.active {
		m.events = append(m.events, pageEvt{id, types.NewLSNFromBytes(data[4:8]), m.maxLSN})
	}
	if m.active && m.userPages[id] {
		lsn := types.NewLSNFromBytes(data[4:8])
		vf.Assert(lsn <= m.maxLSN, "a user-table page reaches the database file only after the log records up to its LSN")
		vf.Cover("c08.pagewrite")
	}
	return m.DiskManager.WritePage(id, data)
}

type world struct {
	mon  *monitor
	bpm  *buffer.BufferPoolManager
	lm   *recovery.LogManager
	tm   *access.TransactionManager
	cat  *catalog.Catalog
	cp   *concurrency.CheckpointManager
	eng  *executors.ExecutionEngine
	tmd  *catalog.TableMetadata
	tags []int32
	next int32
}

func open(frames int) *world {
	common.TempSuppressOnMemStorage = true
	mon := &monitor{DiskManager: disk.NewDiskManagerImpl("vfc08.db"), userPages: map[types.PageID]bool{}, maxLSN: -1, seenLSN: -1, commits: map[types.TxnID]bool{}, lastLSN: map[types.TxnID]types.LSN{}}
	var dm disk.DiskManager = mon
	lm := recovery.NewLogManager(&dm)
	lm.ActivateLogging()
	bpm := buffer.NewBufferPoolManager(uint32(frames), dm, lm)
	lockMgr := access.NewLockManager(access.STRICT, access.SS2PLMode)
	tm := access.NewTransactionManager(lockMgr, lm)
	mon.parser = log_recovery.NewLogRecovery(dm, bpm, lm)
	w := &world{mon: mon, bpm: bpm, lm: lm, tm: tm, cp: concurrency.NewCheckpointManager(tm, lm, bpm), eng: &executors.ExecutionEngine{}, next: 1}
	// bootstrap as samehada.NewSamehadaDB does
	txn := tm.Begin(nil)
	lm.DeactivateLogging()
	txn.SetIsRecoveryPhase(true)
	w.cat = catalog.BootstrapCatalog(bpm, lm, lockMgr, txn)
	bpm.FlushAllPages()
	tm.Commit(w.cat, txn)
	lm.ActivateLogging()
	mon.active = true
	// user table
	t2 := tm.Begin(nil)
	cols := []*column.Column{
		column.NewColumn("tag", types.Integer, false, index_constants.IndexKindInvalid, types.PageID(-1), nil),
		column.NewColumn("v", types.Integer, false, index_constants.IndexKindInvalid, types.PageID(-1), nil),
		column.NewColumn("s", types.Varchar, false, index_constants.IndexKindInvalid, types.PageID(-1), nil),
	}
	w.tmd = w.cat.CreateTable("t1", schema.NewSchema(cols), t2)
	tm.Commit(w.cat, t2)
	w.refreshPages()
	return w
}

// the user table's pages: follow the heap's page chain
func (w *world) refreshPages() {
	id := w.tmd.Table().GetFirstPageID()
	for n := 0; id.IsValid() && id >= 0 && n < 8; n++ {
		w.mon.userPages[id] = true
		pg := access.CastPageAsTablePage(w.bpm.FetchPage(id))
		next := pg.GetNextPageID()
		w.bpm.UnpinPage(id, false)
		id = next
	}
}

func (w *world) exec(qi *parser.QueryInfo, txn *access.Transaction) {
	qi, _ = optimizer.RewriteQueryInfo(w.cat, qi)
	_, plan := planner.NewSimplePlanner(w.cat, w.bpm).MakePlan(qi, txn)
	w.eng.Execute(plan, executors.NewExecutorContext(w.cat, w.bpm, txn))
}

var bigStr = func() string {
	b := make([]byte, 1500)
	for i := range b {
		b[i] = 'z'
	}
	return string(b)
}()

var opNames = []string{"insert-small", "insert-big", "update", "delete", "checkpoint"}

func (w *world) txn() {
	t := w.tm.Begin(nil)
	op := vf.Choose(len(opNames))
	vf.Note("op", opNames[op])
	var newTag int32 = -1
	delIdx := -1
	switch op {
	case 0, 1:
		s := "small"
		if op == 1 {
			s = bigStr // three of these fill a page: the heap grows
		}
		w.exec(sysx.Insert("t1", []string{"tag", "v", "s"}, []types.Value{types.NewInteger(w.next), types.NewInteger(vf.I32()), types.NewVarchar(s)}), t)
		newTag = w.next
		w.next++
	case 2, 3:
		if len(w.tags) == 0 {
			vf.Assume(false)
		}
		i := vf.Choose(len(w.tags))
		where := sysx.Cmp("tag", expression.Equal, types.NewInteger(w.tags[i]), false)
		if op == 2 {
			w.exec(sysx.Update("t1", []string{"v"}, []types.Value{types.NewInteger(vf.I32())}, where), t)
		} else {
			w.exec(sysx.Delete("t1", where), t)
			delIdx = i
		}
	case 4:
		w.tm.Commit(w.cat, t)
		w.cp.BeginCheckpoint()
		w.cp.EndCheckpoint()
		vf.Cover("c08.checkpoint")
		return
	}
	vf.Assert(t.GetState() != access.ABORTED, "statement of a lone transaction is not aborted")
	w.refreshPages()
	if vf.Choose(2) == 0 {
		id := t.GetTransactionID()
		wrote := len(t.GetWriteSet()) > 0
		w.tm.Commit(w.cat, t)
		if newTag >= 0 {
			w.tags = append(w.tags, newTag)
		}
		if delIdx >= 0 {
			w.tags = append(w.tags[:delIdx], w.tags[delIdx+1:]...)
		}
		if wrote {
			vf.Assert(w.mon.commits[id], "when Commit returns, the transaction's COMMIT record has been handed to the log file")
		}
		vf.Cover("c08.commit")
	} else {
		w.tm.Abort(w.cat, t)
		vf.Cover("c08.abort")
	}
}

func history(frames, k int, shutdown bool) {
	w := open(frames)
	for i := 0; i < k; i++ {
		w.txn()
	}
	// pages that became part of the user table after they were written (e.g. its first page at CREATE TABLE)
	for _, e := range w.mon.events {
		if w.mon.userPages[e.id] {
			vf.Assert(e.lsn <= e.seen, "a user-table page reaches the database file only after the log records up to its LSN (checked in retrospect)")
		}
	}
	if shutdown {
		// SamehadaInstance.Shutdown(ShutdownPatternCloseFiles)
		w.lm.Flush()
		w.bpm.FlushAllDirtyPages()
		w.lm.AppendLogRecord(recovery.NewLogRecordGracefulShutdown())
		w.lm.Flush()
		vf.Cover("c08.shutdown")
	}
}

func VF_C08_K2()       { history(32, 2, true) }
func VF_C08_K3()       { history(32, 3, true) }
func VF_C08_Small_K3() { history(6, 3, true) }
func VF_C08_Small_K4() { history(6, 4, true) }
func VF_C08_K4()       { history(32, 4, true) }

// two transactions open at the same time, interleaved at statement granularity, plus forced page flushes
// (what an eviction does) between a transaction's writes and its commit
func interleaved(k int) {
	w := open(32)
	var t [2]*access.Transaction
	wrote := [2]bool{}
	names := []string{"stmt", "commit", "abort"}
	for i := 0; i < k; i++ {
		act := vf.Choose(7)
		if act == 6 {
			vf.Note("act", "flush-dirty-pages")
			w.bpm.FlushAllDirtyPages()
			continue
		}
		who, what := act/3, act%3
		vf.Note("act", []string{"A", "B"}[who]+":"+names[what])
		if t[who] == nil {
			if what != 0 {
				vf.Assume(false)
			}
			t[who] = w.tm.Begin(nil)
		}
		switch what {
		case 0:
			w.exec(sysx.Insert("t1", []string{"tag", "v", "s"}, []types.Value{types.NewInteger(w.next), types.NewInteger(vf.I32()), types.NewVarchar("small")}), t[who])
			w.next++
			wrote[who] = true
			vf.Assert(t[who].GetState() != access.ABORTED, "inserts of different rows do not conflict")
		case 1:
			id := t[who].GetTransactionID()
			w.tm.Commit(w.cat, t[who])
			if wrote[who] {
				vf.Assert(w.mon.commits[id], "when Commit returns, the transaction's COMMIT record has been handed to the log file")
			}
			vf.Cover("c08.commit")
			t[who], wrote[who] = nil, false
		case 2:
			w.tm.Abort(w.cat, t[who])
			vf.Cover("c08.abort")
			t[who], wrote[who] = nil, false
		}
		w.refreshPages()
	}
	for _, e := range w.mon.events {
		if w.mon.userPages[e.id] {
			vf.Assert(e.lsn <= e.seen, "a user-table page reaches the database file only after the log records up to its LSN (checked in retrospect)")
		}
	}
	vf.Cover("c08.interleaved")
}

func VF_C08_Interleaved_K4() { interleaved(4) }
func VF_C08_Interleaved_K5() { interleaved(5) }
func VF_C08_Interleaved_K6() { interleaved(6) }

// Two threads at the storage boundary: a transaction has changed a page (record in the log buffer, page
// dirty); one goroutine flushes the log (what a committing peer or an eviction does), another one flushes
// the page (what the checkpoint or an eviction does). The log write "takes a while" (switch point inside the
// monitor's WriteLog). Whatever the schedule, the page must not reach the db file before its record is stable.
func concurrentFlush(pageOp int) {
	w := open(8)
	vf.Sched("c08.concurrentFlush")
	vf.SchedPreempt(2)
	t := w.tm.Begin(nil)
	w.exec(sysx.Insert("t1", []string{"tag", "v", "s"}, []types.Value{types.NewInteger(1), types.NewInteger(vf.I32()), types.NewVarchar("small")}), t)
	vf.Assert(t.GetState() != access.ABORTED, "statement of a lone transaction is not aborted")
	w.refreshPages()
	pid := w.tmd.Table().GetFirstPageID()
	done := make(chan bool, 2)
	flushLog := func() {
		w.lm.Flush()
		done <- true
	}
	flushPage := func() {
		if pageOp == 0 {
			w.bpm.FlushPage(pid)
		} else {
			w.bpm.FlushAllDirtyPages()
		}
		done <- true
	}
	// both start orders (the engine explores every schedule anyway; natively the start order decides which
	// goroutine the Go runtime runs first, so the replay of a counterexample follows the choice)
	if vf.Choose(2) == 0 {
		go flushLog()
		go flushPage()
	} else {
		go flushPage()
		go flushLog()
	}
	<-done
	<-done
	vf.Cover("c08.concurrent")
	w.tm.Commit(w.cat, t)
}

func VF_C08_ConcurrentFlushPage() { concurrentFlush(0) }
func VF_C08_ConcurrentFlushAll()  { concurrentFlush(1) }
