//go:build verif

// C11 — join answers equal the naive evaluation whatever plan is chosen.
// Two tables with symbolic join keys; the statement enters at QueryInfo level and runs through the real
// optimizer (findBestJoin: hash join in both orientations, index join) and executors. Which plan wins is
// steered the way it is in production: by the row counts in the statistics and by Go's map iteration
// order (explored by the engine).
package c11

import (
	"github.com/ryogrid/SamehadaDB/lib/container/hash"
	"github.com/ryogrid/SamehadaDB/lib/execution/expression"
	"github.com/ryogrid/SamehadaDB/lib/parser"
	"github.com/ryogrid/SamehadaDB/lib/storage/index/index_constants"
	"github.com/ryogrid/SamehadaDB/lib/types"
	"github.com/ryogrid/SamehadaDB/lib/zzvf/sysx"
	"github.com/ryogrid/SamehadaDB/lib/zzvf/vf"
)

type row struct{ k, tag int32 }

func mk(n int, base int32) []row {
	var rs []row
	for i := 0; i < n; i++ {
		k := vf.I32()
		vf.Assume(k != 2147483647 && k != -2147483648)
		rs = append(rs, row{k, base + int32(i)})
	}
	return rs
}

type opt struct {
	n1, n2     int
	idx1, idx2 index_constants.IndexKind
	stats      bool
	filter     int // 0 none, 1 t1.k >= c (outer/base side), 2 t2.y >= c (other table: inner side of an index join)
	checkPins  bool
	concrete2  bool  // t2 keys are the concrete values 10,20,.. (keeps larger inner tables cheap)
	lo1, hi1   int32 // if hi1 > lo1: t1 keys are assumed within [lo1, hi1] (stated value-range bound of the quick tier)
	conc1      int   // the last conc1 rows of t1 get concrete keys 10,20,.. instead of symbolic ones
	wide       int   // >0: both tables carry (and the query selects) a varchar payload of this many bytes, so the
	// build side of a hash join spans several temporary pages
}

func wideVal(n int, tag int32) types.Value {
	b := make([]byte, n)
	for i := range b {
		b[i] = 'a' + byte(tag%23)
	}
	return types.NewVarchar(string(b))
}

func scenario(n1, n2 int, idx1, idx2 index_constants.IndexKind, stats bool, filter bool, checkPins bool) {
	f := 0
	if filter {
		f = 1
	}
	scenarioO(opt{n1: n1, n2: n2, idx1: idx1, idx2: idx2, stats: stats, filter: f, checkPins: checkPins})
}

func scenarioO(o opt) {
	db := sysx.Open("vfc11", 32)
	c1 := []sysx.ColDef{{"k", types.Integer, o.idx1}, {"x", types.Integer, index_constants.IndexKindInvalid}}
	c2 := []sysx.ColDef{{"k", types.Integer, o.idx2}, {"y", types.Integer, index_constants.IndexKindInvalid}}
	if o.wide > 0 {
		c1 = append(c1, sysx.ColDef{"w", types.Varchar, index_constants.IndexKindInvalid})
		c2 = append(c2, sysx.ColDef{"v", types.Varchar, index_constants.IndexKindInvalid})
	}
	db.CreateTable("t1", c1)
	db.CreateTable("t2", c2)
	r1 := mk(o.n1-o.conc1, 100)
	for i := 0; i < o.conc1; i++ {
		r1 = append(r1, row{int32(10 * (i + 1)), 150 + int32(i)})
	}
	if o.hi1 > o.lo1 {
		for _, r := range r1 {
			vf.Assume(r.k >= o.lo1 && r.k <= o.hi1)
		}
	}
	var r2 []row
	if o.concrete2 {
		for i := 0; i < o.n2; i++ {
			r2 = append(r2, row{int32(10 * (i + 1)), 200 + int32(i)})
		}
	} else {
		r2 = mk(o.n2, 200)
	}
	for _, r := range r1 {
		cols, vals := []string{"k", "x"}, []types.Value{types.NewInteger(r.k), types.NewInteger(r.tag)}
		if o.wide > 0 {
			cols, vals = append(cols, "w"), append(vals, wideVal(o.wide, r.tag))
		}
		db.Auto(sysx.Insert("t1", cols, vals))
	}
	for _, r := range r2 {
		cols, vals := []string{"k", "y"}, []types.Value{types.NewInteger(r.k), types.NewInteger(r.tag)}
		if o.wide > 0 {
			cols, vals = append(cols, "v"), append(vals, wideVal(o.wide, r.tag))
		}
		db.Auto(sysx.Insert("t2", cols, vals))
	}
	if o.stats {
		db.UpdateStats("t1")
		db.UpdateStats("t2")
	}
	var where *parser.BinaryOpExpression
	c := vf.I32()
	vf.Assume(c != 2147483647 && c != -2147483648)
	switch o.filter {
	case 1:
		where = sysx.Cmp("t1.k", expression.GreaterThanOrEqual, types.NewInteger(c), false)
	case 2:
		where = sysx.Cmp("t2.y", expression.GreaterThanOrEqual, types.NewInteger(c), false)
	}
	sel := [][2]string{{"t2", "y"}, {"t1", "x"}}
	if o.wide > 0 {
		sel = append(sel, [2]string{"t1", "w"}, [2]string{"t2", "v"})
	}
	qi := sysx.SelectJoin("t1", "t2", sel, "t1.k", "t2.k", where)
	before := db.Pins()
	vf.MapOrdersIn("findBestJoin") // which table becomes base / join side depends on map iteration order
	rows, sc, ab := db.Auto(qi)
	vf.MapOrdersIn("")
	vf.Assert(!ab, "join query is not aborted")
	vf.Cover("c11.joined")
	if o.checkPins {
		vf.Assert(sysx.SamePins(before, db.Pins()), "join statement releases every pin it took")
		return
	}
	// reference: every matching combination exactly once
	want := 0
	for _, a := range r1 {
		for _, b := range r2 {
			keep := true
			switch o.filter {
			case 1:
				keep = a.k >= c
			case 2:
				keep = b.tag >= c
			}
			if a.k == b.k && keep {
				want++
				found := 0
				for _, out := range rows {
					if out.GetValue(sc, 0).ToInteger() == b.tag && out.GetValue(sc, 1).ToInteger() == a.tag {
						found++
					}
				}
				vf.Assert(found == 1, "each matching combination is returned exactly once, columns in the written order")
				vf.Cover("c11.match")
			}
		}
	}
	vf.Assert(len(rows) == want, "no other combination is returned")
}

const none = index_constants.IndexKindInvalid
const sl = index_constants.IndexKindSkipList

func VF_C11_Hash_1x1()         { scenario(1, 1, none, none, false, false, false) }
func VF_C11_Hash_2x2()         { scenario(2, 2, none, none, true, false, false) }
func VF_C11_Hash_2x2_Filter()  { scenario(2, 2, none, none, false, true, false) }
func VF_C11_Index_1x3()        { scenario(1, 3, none, sl, true, false, false) }
func VF_C11_Index_2x3_Filter() { scenario(2, 3, sl, sl, true, true, false) }
func VF_C11_Empty()            { scenario(0, 2, none, sl, true, false, false) }

// C14 variants: same statements, oracle = pins before == pins after
func VF_C14_Join_Hash()  { scenario(2, 2, none, none, true, false, true) }
func VF_C14_Join_Index() { scenario(1, 3, none, sl, true, false, true) }

// index join with two outer rows against a five-row indexed inner table (index join is the cheapest plan:
// 3*2 < 2+5); the outer keys are symbolic, so "first outer row unmatched, second matched" is covered
func VF_C11_Index_2x5() {
	scenarioO(opt{n1: 2, n2: 5, idx1: none, idx2: sl, stats: true, concrete2: true})
}

func VF_C11_Index_2x5_Near() {
	scenarioO(opt{n1: 2, n2: 5, idx1: none, idx2: sl, stats: true, concrete2: true, lo1: 5, hi1: 25})
}
func VF_C11_Index_2x5_InnerFilter_Near() {
	scenarioO(opt{n1: 2, n2: 5, idx1: none, idx2: sl, stats: true, concrete2: true, filter: 2, lo1: 5, hi1: 25})
}

// the WHERE clause constrains the table that becomes the inner side of the index join
func VF_C11_Index_2x5_InnerFilter() {
	scenarioO(opt{n1: 2, n2: 5, idx1: none, idx2: sl, stats: true, concrete2: true, filter: 2})
}

// hash join whose build side does not fit one temporary page (3 rows of ~1.5 KB)
func VF_C14_Join_Hash_Wide() {
	scenarioO(opt{n1: 3, n2: 3, idx1: none, idx2: none, stats: true, wide: 1500, checkPins: true, concrete2: true, conc1: 2, lo1: 5, hi1: 25})
}
func VF_C11_Hash_Wide() {
	scenarioO(opt{n1: 3, n2: 3, idx1: none, idx2: none, stats: true, wide: 1500, concrete2: true, conc1: 2, lo1: 5, hi1: 25})
}

// two different join keys with the same 32-bit hash value (1333 and 195726 collide under the real murmur3 of
// the serialized integer; checked at run time) on both sides of a hash join, in a symbolic insertion order,
// next to one symbolic key: every bucket entry has to be tested on its own tuple
func VF_C11_Hash_Collision() {
	ka, kb := types.NewInteger(1333), types.NewInteger(195726)
	vf.Assert(hash.HashValue(&ka) == hash.HashValue(&kb), "the two constants really collide under the hash the executor uses")
	vf.Cover("c11.collision")
	db := sysx.Open("vfc11", 32)
	cols := func(n string) []sysx.ColDef {
		return []sysx.ColDef{{"k", types.Integer, none}, {n, types.Integer, none}}
	}
	db.CreateTable("t1", cols("x"))
	db.CreateTable("t2", cols("y"))
	keys := [][]int32{{1333, 195726}, {195726, 1333}}
	o1, o2 := keys[vf.Choose(2)], keys[vf.Choose(2)]
	ks := vf.I32()
	vf.Assume(ks != 2147483647 && ks != -2147483648)
	r1 := []row{{o1[0], 101}, {o1[1], 102}, {ks, 103}}
	r2 := []row{{o2[0], 201}, {o2[1], 202}, {1333, 203}}
	for _, r := range r1 {
		db.Auto(sysx.Insert("t1", []string{"k", "x"}, []types.Value{types.NewInteger(r.k), types.NewInteger(r.tag)}))
	}
	for _, r := range r2 {
		db.Auto(sysx.Insert("t2", []string{"k", "y"}, []types.Value{types.NewInteger(r.k), types.NewInteger(r.tag)}))
	}
	db.UpdateStats("t1")
	db.UpdateStats("t2")
	qi := sysx.SelectJoin("t1", "t2", [][2]string{{"t2", "y"}, {"t1", "x"}}, "t1.k", "t2.k", nil)
	vf.MapOrdersIn("findBestJoin")
	rows, sc, ab := db.Auto(qi)
	vf.MapOrdersIn("")
	vf.Assert(!ab, "join query is not aborted")
	want := 0
	for _, a := range r1 {
		for _, b := range r2 {
			if a.k == b.k {
				want++
				found := 0
				for _, out := range rows {
					if out.GetValue(sc, 0).ToInteger() == b.tag && out.GetValue(sc, 1).ToInteger() == a.tag {
						found++
					}
				}
				vf.Assert(found == 1, "each matching combination is returned exactly once, columns in the written order")
			}
		}
	}
	vf.Assert(len(rows) == want, "no other combination is returned")
	vf.Cover("c11.joined")
	vf.Cover("c11.match")
}

// a second equality between the two tables in the WHERE clause:
// SELECT t2.y, t1.x FROM t1 JOIN t2 ON t1.k = t2.k WHERE t1.x = t2.y
func VF_C11_TwoEqualities()       { twoConditions(2, 2, expression.Equal) }
func VF_C11_TwoEqualities_2x1()   { twoConditions(2, 1, expression.Equal) }
func VF_C11_EqualityAndLess_2x1() { twoConditions(2, 1, expression.LessThan) }

func twoConditions(n1, n2 int, op expression.ComparisonType) {
	db := sysx.Open("vfc11", 32)
	db.CreateTable("t1", []sysx.ColDef{{"k", types.Integer, none}, {"x", types.Integer, none}})
	db.CreateTable("t2", []sysx.ColDef{{"k", types.Integer, none}, {"y", types.Integer, none}})
	mk2 := func(n int) []row {
		var rs []row
		for i := 0; i < n; i++ {
			k, v := vf.I32(), vf.I32()
			vf.Assume(k != 2147483647 && k != -2147483648 && v != 2147483647 && v != -2147483648)
			rs = append(rs, row{k, v})
		}
		return rs
	}
	r1, r2 := mk2(n1), mk2(n2)
	for _, r := range r1 {
		db.Auto(sysx.Insert("t1", []string{"k", "x"}, []types.Value{types.NewInteger(r.k), types.NewInteger(r.tag)}))
	}
	for _, r := range r2 {
		db.Auto(sysx.Insert("t2", []string{"k", "y"}, []types.Value{types.NewInteger(r.k), types.NewInteger(r.tag)}))
	}
	qi := sysx.SelectJoin("t1", "t2", [][2]string{{"t2", "y"}, {"t1", "x"}}, "t1.k", "t2.k", sysx.CmpCols("t1.x", op, "t2.y"))
	vf.MapOrdersIn("findBestJoin")
	rows, _, ab := db.Auto(qi)
	vf.MapOrdersIn("")
	vf.Assert(!ab, "join query is not aborted")
	want := 0
	for _, a := range r1 {
		for _, b := range r2 {
			if a.k == b.k && ((op == expression.Equal && a.tag == b.tag) || (op == expression.LessThan && a.tag < b.tag)) {
				want++
			}
		}
	}
	vf.Assert(len(rows) == want, "exactly the combinations which satisfy both conditions are returned")
	vf.Cover("c11.two-equalities")
}
