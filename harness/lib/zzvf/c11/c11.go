//go:build verif

// C11 — join answers equal the naive evaluation whatever plan is chosen.
// Two tables with symbolic join keys; the statement enters at QueryInfo level and runs through the real
// optimizer (findBestJoin: hash join in both orientations, index join) and executors. Which plan wins is
// steered the way it is in production: by the row counts in the statistics and by Go's map iteration
// order (explored by the engine).
package c11

import (
	"github.com/ryogrid/SamehadaDB/lib/execution/expression"
	"github.com/ryogrid/SamehadaDB/lib/parser"
	"github.com/ryogrid/SamehadaDB/lib/storage/index/index_constants"
	"github.com/ryogrid/SamehadaDB/lib/types"
	"github.com/ryogrid/SamehadaDB/lib/zzvf/sysx"
	"github.com/ryogrid/SamehadaDB/lib/zzvf/vf"
)

type row struct{ k, tag int32 }

func mk(n int, base int32) []row {
	var rs []row
	for i := 0; i < n; i++ {
		k := vf.I32()
		vf.Assume(k != 2147483647 && k != -2147483648)
		rs = append(rs, row{k, base + int32(i)})
	}
	return rs
}

func scenario(n1, n2 int, idx1, idx2 index_constants.IndexKind, stats bool, filter bool, checkPins bool) {
	db := sysx.Open("vfc11", 32)
	db.CreateTable("t1", []sysx.ColDef{{"k", types.Integer, idx1}, {"x", types.Integer, index_constants.IndexKindInvalid}})
	db.CreateTable("t2", []sysx.ColDef{{"k", types.Integer, idx2}, {"y", types.Integer, index_constants.IndexKindInvalid}})
	r1, r2 := mk(n1, 100), mk(n2, 200)
	for _, r := range r1 {
		db.Auto(sysx.Insert("t1", []string{"k", "x"}, []types.Value{types.NewInteger(r.k), types.NewInteger(r.tag)}))
	}
	for _, r := range r2 {
		db.Auto(sysx.Insert("t2", []string{"k", "y"}, []types.Value{types.NewInteger(r.k), types.NewInteger(r.tag)}))
	}
	if stats {
		db.UpdateStats("t1")
		db.UpdateStats("t2")
	}
	var where *parser.BinaryOpExpression
	c := vf.I32()
	vf.Assume(c != 2147483647 && c != -2147483648)
	if filter {
		where = sysx.Cmp("t1.k", expression.GreaterThanOrEqual, types.NewInteger(c), false)
	}
	qi := sysx.SelectJoin("t1", "t2", [][2]string{{"t2", "y"}, {"t1", "x"}}, "t1.k", "t2.k", where)
	before := db.Pins()
	vf.MapOrdersIn("findBestJoin") // which table becomes base / join side depends on map iteration order
	rows, sc, ab := db.Auto(qi)
	vf.MapOrdersIn("")
	vf.Assert(!ab, "join query is not aborted")
	vf.Cover("c11.joined")
	if checkPins {
		vf.Assert(sysx.SamePins(before, db.Pins()), "join statement releases every pin it took")
		return
	}
	// reference: every matching combination exactly once
	want := 0
	for _, a := range r1 {
		for _, b := range r2 {
			if a.k == b.k && (!filter || a.k >= c) {
				want++
				found := 0
				for _, out := range rows {
					if out.GetValue(sc, 0).ToInteger() == b.tag && out.GetValue(sc, 1).ToInteger() == a.tag {
						found++
					}
				}
				vf.Assert(found == 1, "each matching combination is returned exactly once, columns in the written order")
				vf.Cover("c11.match")
			}
		}
	}
	vf.Assert(len(rows) == want, "no other combination is returned")
}

const none = index_constants.IndexKindInvalid
const sl = index_constants.IndexKindSkipList

func VF_C11_Hash_1x1()        { scenario(1, 1, none, none, false, false, false) }
func VF_C11_Hash_2x2()        { scenario(2, 2, none, none, true, false, false) }
func VF_C11_Hash_2x2_Filter() { scenario(2, 2, none, none, false, true, false) }
func VF_C11_Index_1x3()       { scenario(1, 3, none, sl, true, false, false) }
func VF_C11_Index_2x3_Filter() { scenario(2, 3, sl, sl, true, true, false) }
func VF_C11_Empty()           { scenario(0, 2, none, sl, true, false, false) }

// C14 variants: same statements, oracle = pins before == pins after
func VF_C14_Join_Hash()  { scenario(2, 2, none, none, true, false, true) }
func VF_C14_Join_Index() { scenario(1, 3, none, sl, true, false, true) }
