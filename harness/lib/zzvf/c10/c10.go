//go:build verif

// C10 — tables keep identity, schema and data across restarts.
package c10

import (
	"strings"

	"github.com/ryogrid/SamehadaDB/lib/storage/index/index_constants"
	"github.com/ryogrid/SamehadaDB/lib/types"
	"github.com/ryogrid/SamehadaDB/lib/zzvf/sysx"
	"github.com/ryogrid/SamehadaDB/lib/zzvf/vf"
)

type tbl struct {
	name string
	cols []sysx.ColDef
	key  int32 // value stored in the first column of the table's only row
	oid  uint32
	fp   types.PageID
}

var shapes = [][]sysx.ColDef{
	{{"k", types.Integer, index_constants.IndexKindSkipList}, {"v", types.Integer, index_constants.IndexKindInvalid}},
	{{"k", types.Integer, index_constants.IndexKindInvalid}, {"s", types.Varchar, index_constants.IndexKindInvalid}, {"f", types.Float, index_constants.IndexKindInvalid}},
	{{"k", types.Integer, index_constants.IndexKindSkipList}},
}

func create(r *sysx.Real, name string, shape int) *tbl {
	t := &tbl{name: name, cols: shapes[shape], key: vf.I32()}
	tm := r.CreateTable(name, t.cols)
	t.oid, t.fp = tm.OID(), tm.Table().GetFirstPageID()
	var names []string
	var vals []types.Value
	for i, c := range t.cols {
		names = append(names, c.Name)
		switch {
		case i == 0:
			vals = append(vals, types.NewInteger(t.key))
		case c.Type == types.Integer:
			vals = append(vals, types.NewInteger(t.key+1))
		case c.Type == types.Varchar:
			vals = append(vals, types.NewVarchar(name))
		default:
			vals = append(vals, types.NewFloat(1.5))
		}
	}
	_, _, ab := r.Auto(sysx.Insert(name, names, vals))
	vf.Assert(!ab, "insert into a new table is not aborted")
	return t
}

func audit(r *sysx.Real, all []*tbl, when string) {
	for i, t := range all {
		tm := r.Cat.GetTableByName(t.name)
		vf.Assert(tm != nil, when+": table is reachable under its name")
		vf.Assert(tm.OID() == t.oid, when+": table keeps its object id")
		vf.Assert(tm.Table().GetFirstPageID() == t.fp, when+": table keeps its first page")
		vf.Assert(int(tm.Schema().GetColumnCount()) == len(t.cols), when+": table keeps its column count")
		for c := range t.cols {
			col := tm.Schema().GetColumn(uint32(c))
			vf.Assert(col.GetType() == t.cols[c].Type, when+": column keeps its type")
			vf.Assert(col.GetColumnName() == strings.ToLower(t.name)+"."+t.cols[c].Name, when+": column keeps its name")
		}
		vf.Assert(r.Cat.GetTableByOID(t.oid) == tm, when+": object id resolves to the same table")
		rows, sc, ab := r.SelectAll(t.name)
		vf.Assert(!ab, when+": scan is not aborted")
		vf.Assert(len(rows) == 1, when+": table holds exactly its own row")
		vf.Assert(rows[0].GetValue(sc, 0).ToInteger() == t.key, when+": row holds its value")
		for j := i + 1; j < len(all); j++ {
			vf.Assert(all[j].oid != t.oid, when+": two tables never share an object id")
			vf.Assert(all[j].fp != t.fp, when+": two tables never share their first page")
		}
	}
	vf.Cover("c10.audit." + when)
}

func scenario(crash bool) {
	r := sysx.OpenReal("vfc10", 200)
	var all []*tbl
	n := 1 + vf.Choose(2)
	// table names are case-insensitive: either all lower case or written with capitals
	names := [][]string{{"ta", "tb", "tc"}, {"Ta", "tB", "TC"}}[vf.Choose(2)]
	for i := 0; i < n; i++ {
		all = append(all, create(r, names[i], vf.Choose(3)))
	}
	audit(r, all, "before restart")
	restart := func() {
		if crash {
			r.Sdb.ShutdownForTescase()
		} else {
			r.Sdb.Shutdown()
		}
		r = sysx.OpenReal("vfc10", 200)
	}
	restart()
	audit(r, all, "after restart")
	all = append(all, create(r, names[2], vf.Choose(3)))
	audit(r, all, "after create following restart")
	restart()
	audit(r, all, "after second restart")
}

func VF_C10_Clean() { scenario(false) }
func VF_C10_Crash() { scenario(true) }

// a catalog larger than one page: a 40-column table with long column names, restart, a small table created
// after it (its column rows land partly in the free tail of the first catalog page, partly behind the rows
// of the wide table), restart again
func VF_C10_WideCatalog() {
	r := sysx.OpenReal("vfc10", 200)
	// the length of the column names decides how many bytes stay free at the end of the first catalog page
	pad := 4 * vf.Choose(6)
	vf.Note("name-pad", pad)
	var wide []sysx.ColDef
	types3 := []types.TypeID{types.Integer, types.Varchar, types.Float}
	for i := 0; i < 40; i++ {
		name := "column_with_a_rather_long_name_number_"[:18+pad] + string(rune('a'+i/10)) + string(rune('0'+i%10))
		wide = append(wide, sysx.ColDef{name, types3[i%3], index_constants.IndexKindInvalid})
	}
	wide[0].Type = types.Integer
	shapes = append(shapes, wide, []sysx.ColDef{{"a", types.Integer, index_constants.IndexKindInvalid}, {"b", types.Varchar, index_constants.IndexKindInvalid}, {"c", types.Float, index_constants.IndexKindInvalid}, {"d", types.Integer, index_constants.IndexKindInvalid}})
	all := []*tbl{create(r, "wide", len(shapes)-2)}
	audit(r, all, "before restart")
	restart := func() {
		if vf.Choose(2) == 1 {
			r.Sdb.ShutdownForTescase()
		} else {
			r.Sdb.Shutdown()
		}
		r = sysx.OpenReal("vfc10", 200)
	}
	restart()
	audit(r, all, "after restart")
	all = append(all, create(r, "s", len(shapes)-1))
	audit(r, all, "after create following restart")
	restart()
	audit(r, all, "after second restart")
	vf.Cover("c10.wide-catalog")
}
