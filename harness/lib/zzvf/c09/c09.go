//go:build verif

// C09 — a clean shutdown and reopen changes nothing observable.
package c09

import (
	"github.com/ryogrid/SamehadaDB/lib/execution/expression"
	"github.com/ryogrid/SamehadaDB/lib/parser"
	"github.com/ryogrid/SamehadaDB/lib/storage/index/index_constants"
	"github.com/ryogrid/SamehadaDB/lib/types"
	"github.com/ryogrid/SamehadaDB/lib/zzvf/sysx"
	"github.com/ryogrid/SamehadaDB/lib/zzvf/vf"
)

type row struct{ a, tag int32 }

type probe struct {
	name  string
	where func() *parser.BinaryOpExpression
	match func(r row) bool
}

func count(r *sysx.Real, p probe, what string) int {
	rows, _, ab := r.Auto(sysx.Select("t1", []string{"a", "tag"}, p.where()))
	vf.Assert(!ab, what+": query is not aborted ("+p.name+")")
	return len(rows)
}

func scenario(kind index_constants.IndexKind, cycles int) {
	r := sysx.OpenReal("vfc09", 200)
	r.CreateTable("t1", []sysx.ColDef{{"a", types.Integer, kind}, {"tag", types.Integer, index_constants.IndexKindInvalid}})
	rows := []row{{vf.I32(), 1}, {vf.I32(), 2}}
	for _, x := range rows {
		vf.Assume(x.a != 2147483647 && x.a != -2147483648)
	}
	vf.Assume(rows[0].a != rows[1].a)
	for _, x := range rows {
		_, _, ab := r.Auto(sysx.Insert("t1", []string{"a", "tag"}, []types.Value{types.NewInteger(x.a), types.NewInteger(x.tag)}))
		vf.Assert(!ab, "insert is not aborted")
	}
	c := vf.I32()
	vf.Assume(c != 2147483647 && c != -2147483648)
	probes := []probe{
		{"index point: a = first row's key", func() *parser.BinaryOpExpression { return sysx.Cmp("a", expression.Equal, types.NewInteger(rows[0].a), false) }, func(x row) bool { return x.a == rows[0].a }},
		{"index range: a >= c", func() *parser.BinaryOpExpression { return sysx.Cmp("a", expression.GreaterThanOrEqual, types.NewInteger(c), false) }, func(x row) bool { return x.a >= c }},
		{"sequential: a >= c OR tag = 0", func() *parser.BinaryOpExpression {
			return sysx.Or(sysx.Cmp("a", expression.GreaterThanOrEqual, types.NewInteger(c), false), sysx.Cmp("tag", expression.Equal, types.NewInteger(0), false))
		}, func(x row) bool { return x.a >= c }},
	}
	check := func(what string) {
		for _, p := range probes {
			want := 0
			for _, x := range rows {
				if p.match(x) {
					want++
				}
			}
			vf.Assert(count(r, p, what) == want, what+": "+p.name+" returns the reference answer")
		}
		vf.Cover("c09." + what)
	}
	check("before shutdown")
	for i := 0; i < cycles; i++ {
		r.Sdb.Shutdown()
		r = sysx.OpenReal("vfc09", 200)
		check("after reopen")
		// the reopened database accepts further writes
		nr := row{vf.I32(), int32(10 + i)}
		vf.Assume(nr.a != 2147483647 && nr.a != -2147483648)
		for _, x := range rows {
			vf.Assume(nr.a != x.a) // duplicate keys are C07's subject
		}
		_, _, ab := r.Auto(sysx.Insert("t1", []string{"a", "tag"}, []types.Value{types.NewInteger(nr.a), types.NewInteger(nr.tag)}))
		vf.Assert(!ab, "insert after reopen is not aborted")
		rows = append(rows, nr)
		check("after reopen and insert")
	}
}

func VF_C09_SkipList()     { scenario(index_constants.IndexKindSkipList, 1) }
func VF_C09_UniqSkipList() { scenario(index_constants.IndexKindUniqSkipList, 1) }
func VF_C09_NoIndex()      { scenario(index_constants.IndexKindInvalid, 1) }
func VF_C09_SkipList2()    { scenario(index_constants.IndexKindSkipList, 2) }
