//go:build verif

// C09 — a clean shutdown and reopen changes nothing observable.
package c09

import (
	"github.com/ryogrid/SamehadaDB/lib/execution/expression"
	"github.com/ryogrid/SamehadaDB/lib/parser"
	"github.com/ryogrid/SamehadaDB/lib/storage/index/index_constants"
	"github.com/ryogrid/SamehadaDB/lib/types"
	"github.com/ryogrid/SamehadaDB/lib/zzvf/sysx"
	"github.com/ryogrid/SamehadaDB/lib/zzvf/vf"
)

type row struct{ a, tag int32 }

type probe struct {
	name  string
	where func() *parser.BinaryOpExpression
	match func(r row) bool
}

func count(r *sysx.Real, p probe, what string) int {
	rows, _, ab := r.Auto(sysx.Select("t1", []string{"a", "tag"}, p.where()))
	vf.Assert(!ab, what+": query is not aborted ("+p.name+")")
	return len(rows)
}

func scenario(kind index_constants.IndexKind, cycles int) {
	r := sysx.OpenReal("vfc09", 200)
	r.CreateTable("t1", []sysx.ColDef{{"a", types.Integer, kind}, {"tag", types.Integer, index_constants.IndexKindInvalid}})
	rows := []row{{vf.I32(), 1}, {vf.I32(), 2}}
	for _, x := range rows {
		vf.Assume(x.a != 2147483647 && x.a != -2147483648)
	}
	vf.Assume(rows[0].a != rows[1].a)
	for _, x := range rows {
		_, _, ab := r.Auto(sysx.Insert("t1", []string{"a", "tag"}, []types.Value{types.NewInteger(x.a), types.NewInteger(x.tag)}))
		vf.Assert(!ab, "insert is not aborted")
	}
	c := vf.I32()
	vf.Assume(c != 2147483647 && c != -2147483648)
	probes := []probe{
		{"index point: a = first row's key", func() *parser.BinaryOpExpression { return sysx.Cmp("a", expression.Equal, types.NewInteger(rows[0].a), false) }, func(x row) bool { return x.a == rows[0].a }},
		{"index range: a >= c", func() *parser.BinaryOpExpression { return sysx.Cmp("a", expression.GreaterThanOrEqual, types.NewInteger(c), false) }, func(x row) bool { return x.a >= c }},
		{"sequential: a >= c OR tag = 0", func() *parser.BinaryOpExpression {
			return sysx.Or(sysx.Cmp("a", expression.GreaterThanOrEqual, types.NewInteger(c), false), sysx.Cmp("tag", expression.Equal, types.NewInteger(0), false))
		}, func(x row) bool { return x.a >= c }},
	}
	check := func(what string) {
		for _, p := range probes {
			want := 0
			for _, x := range rows {
				if p.match(x) {
					want++
				}
			}
			vf.Assert(count(r, p, what) == want, what+": "+p.name+" returns the reference answer")
		}
		vf.Cover("c09." + what)
	}
	check("before shutdown")
	for i := 0; i < cycles; i++ {
		r.Sdb.Shutdown()
		r = sysx.OpenReal("vfc09", 200)
		check("after reopen")
		// the reopened database accepts further writes
		nr := row{vf.I32(), int32(10 + i)}
		vf.Assume(nr.a != 2147483647 && nr.a != -2147483648)
		for _, x := range rows {
			vf.Assume(nr.a != x.a) // duplicate keys are C07's subject
		}
		_, _, ab := r.Auto(sysx.Insert("t1", []string{"a", "tag"}, []types.Value{types.NewInteger(nr.a), types.NewInteger(nr.tag)}))
		vf.Assert(!ab, "insert after reopen is not aborted")
		rows = append(rows, nr)
		check("after reopen and insert")
	}
}

func VF_C09_SkipList()     { scenario(index_constants.IndexKindSkipList, 1) }
func VF_C09_UniqSkipList() { scenario(index_constants.IndexKindUniqSkipList, 1) }
func VF_C09_NoIndex()      { scenario(index_constants.IndexKindInvalid, 1) }
func VF_C09_SkipList2()    { scenario(index_constants.IndexKindSkipList, 2) }

// Page recycling across restarts: a hash join deallocates its temporary page, the next table takes that page
// id from the reusable list (ReusePage is logged), the database is shut down and reopened twice with new
// tables created after each reopen. A page that is in use must not be handed out again after a restart.
func VF_C09_Recycle() {
	r := sysx.OpenReal("vfc09", 200)
	cols := func() []sysx.ColDef {
		return []sysx.ColDef{{"a", types.Integer, index_constants.IndexKindInvalid}, {"tag", types.Integer, index_constants.IndexKindInvalid}}
	}
	model := map[string][]row{}
	var names []string
	ins := func(t string, x row) {
		_, _, ab := r.Auto(sysx.Insert(t, []string{"a", "tag"}, []types.Value{types.NewInteger(x.a), types.NewInteger(x.tag)}))
		vf.Assert(!ab, "insert is not aborted")
		model[t] = append(model[t], x)
	}
	mk := func(t string, tag int32) {
		r.CreateTable(t, cols())
		names = append(names, t)
		a := vf.I32()
		vf.Assume(a != 2147483647 && a != -2147483648)
		ins(t, row{a, tag})
	}
	check := func(what string) {
		for _, t := range names {
			rows, sc, ab := r.SelectAll(t)
			vf.Assert(!ab, what+": scan is not aborted")
			vf.Assert(len(rows) == len(model[t]), what+": every table has the rows committed into it, no more")
			for _, x := range model[t] {
				n := 0
				for _, got := range rows {
					if got.GetValue(sc, 0).ToInteger() == x.a && got.GetValue(sc, 1).ToInteger() == x.tag {
						n++
					}
				}
				vf.Assert(n >= 1, what+": every committed row is found with its values")
			}
		}
		vf.Cover("c09.recycle." + what)
	}
	mk("t1", 1)
	mk("t2", 2)
	// two wide tables whose hash join needs two temporary pages (three ~1.5 KB rows on the build side)
	wcols := []sysx.ColDef{{"a", types.Integer, index_constants.IndexKindInvalid}, {"w", types.Varchar, index_constants.IndexKindInvalid}}
	r.CreateTable("w1", wcols)
	r.CreateTable("w2", wcols)
	wide := make([]byte, 1500)
	for i := range wide {
		wide[i] = 'w'
	}
	for i := 0; i < 3; i++ {
		for _, t := range []string{"w1", "w2"} {
			_, _, ab := r.Auto(sysx.Insert(t, []string{"a", "w"}, []types.Value{types.NewInteger(int32(i)), types.NewVarchar(string(wide))}))
			vf.Assert(!ab, "insert is not aborted")
		}
	}
	before := len(r.Shi.GetBufferPoolManager().GetReusablePageIDs())
	jr, _, ab := r.Auto(sysx.SelectJoin("w1", "w2", [][2]string{{"w1", "w"}, {"w2", "w"}}, "w1.a", "w2.a", nil))
	vf.Assert(!ab && len(jr) == 3, "join is not aborted and returns the three pairs")
	freed := len(r.Shi.GetBufferPoolManager().GetReusablePageIDs()) - before
	if freed >= 2 {
		vf.Cover("c09.recycle.pages-deallocated")
	}
	mk("t3", 3) // takes one of the deallocated pages
	if len(r.Shi.GetBufferPoolManager().GetReusablePageIDs()) == before+freed-1 {
		vf.Cover("c09.recycle.page-reused")
	}
	check("before shutdown")
	for i := 0; i < 2; i++ {
		r.Sdb.Shutdown()
		r = sysx.OpenReal("vfc09", 200)
		check("after reopen")
		mk("u"+string(rune('1'+i)), int32(10+i)) // pages allocated after the restart
		ins("t1", row{int32(100 + i), int32(20 + i)})
		check("after reopen and new table")
	}
}
