//go:build verif

// C13 — the buffer pool returns the latest bytes of a page.
// Bounded histories of real BufferPoolManager calls on a small pool; written bytes and their offsets are
// symbolic; users respect the pin protocol (App. B of DESIGN.md).
package c13

import (
	"github.com/ryogrid/SamehadaDB/lib/recovery"
	"github.com/ryogrid/SamehadaDB/lib/storage/buffer"
	"github.com/ryogrid/SamehadaDB/lib/storage/disk"
	"github.com/ryogrid/SamehadaDB/lib/storage/page"
	"github.com/ryogrid/SamehadaDB/lib/types"
	"github.com/ryogrid/SamehadaDB/lib/zzvf/vf"
)

type pgModel struct {
	id      types.PageID
	shadow  *[4096]byte
	alive   bool       // allocated and not deallocated
	pins    int        // pins held by the harness users
	handle  *page.Page // valid while pins > 0
	touched bool       // modified since it was pinned (must be unpinned dirty)
	fresh   bool       // never unpinned since NewPage
}

type world struct {
	bpm   *buffer.BufferPoolManager
	pool  int
	pages []*pgModel
}

func newWorld(pool int, virtual bool) *world {
	var dm disk.DiskManager
	if virtual {
		dm = disk.NewVirtualDiskManagerImpl("vfc13.db")
	} else {
		dm = disk.NewDiskManagerImpl("vfc13.db")
	}
	lm := recovery.NewLogManager(&dm)
	return &world{bpm: buffer.NewBufferPoolManager(uint32(pool), dm, lm), pool: pool}
}

func (w *world) pinnedPages() int {
	n := 0
	for _, p := range w.pages {
		if p.pins > 0 {
			n++
		}
	}
	return n
}

func (w *world) pick(pred func(p *pgModel) bool) *pgModel {
	var c []*pgModel
	for _, p := range w.pages {
		if pred(p) {
			c = append(c, p)
		}
	}
	if len(c) == 0 {
		vf.Assume(false)
	}
	return c[vf.Choose(len(c))]
}

func (w *world) checkContent(pg *page.Page, m *pgModel, what string) {
	j := vf.U32()
	vf.Assume(j < 4096)
	vf.Assert(pg.Data()[j] == m.shadow[j], what)
}

func (w *world) write(m *pgModel) {
	off := vf.U32()
	vf.Assume(off >= 8 && off <= 4096-4)
	b := vf.Bytes(4)
	copy(m.handle.Data()[off:], b)
	copy(m.shadow[off:], b)
	m.touched = true
}

var opNames = []string{"new", "fetch", "write", "unpin", "flush", "flushall", "dealloc-wait", "dealloc-nowait", "dealloc-nowait-pinned"}

var menu8 = []int{0, 1, 2, 3, 4, 5, 6, 7}

func (w *world) step(allowCleanNew bool) { w.stepOf(allowCleanNew, nil) }

// stepOf: one operation out of the given menu (nil = all eight)
func (w *world) stepOf(allowCleanNew bool, menu []int) {
	op := 0
	if menu == nil {
		op = vf.Choose(9)
	} else {
		op = menu[vf.Choose(len(menu))]
	}
	vf.Note("op", opNames[op])
	switch op {
	case 0: // new page
		vf.Assume(w.pinnedPages() < w.pool)
		pg := w.bpm.NewPage()
		vf.Assert(pg != nil, "NewPage succeeds while an unpinned frame exists")
		for _, o := range w.pages {
			if o.alive || o.pins > 0 {
				vf.Assert(o.id != pg.GetPageID(), "a new page id is never one that is still in use")
			}
			if o.pins > 0 {
				vf.Assert(o.handle != pg && o.handle.Data() != pg.Data(), "a pinned frame is never handed to another page")
			}
		}
		m := &pgModel{id: pg.GetPageID(), shadow: new([4096]byte), alive: true, pins: 1, handle: pg, fresh: true}
		w.checkContent(pg, m, "a new page starts zeroed")
		w.pages = append(w.pages, m)
		vf.Cover("c13.new")
	case 1: // fetch
		m := w.pick(func(p *pgModel) bool { return p.alive })
		if m.pins == 0 {
			vf.Assume(w.pinnedPages() < w.pool)
		}
		pg := w.bpm.FetchPage(m.id)
		vf.Assert(pg != nil, "FetchPage of an allocated page succeeds while a frame is available")
		vf.Assert(pg.GetPageID() == m.id, "fetched page carries the requested id")
		if m.pins > 0 {
			vf.Assert(pg == m.handle, "a pinned page is fetched into the same frame")
		}
		for _, o := range w.pages {
			if o != m && o.pins > 0 {
				vf.Assert(o.handle != pg && o.handle.Data() != pg.Data(), "distinct resident pages never share a frame")
			}
		}
		w.checkContent(pg, m, "fetch returns the latest bytes of the page")
		m.handle = pg
		m.pins++
		vf.Cover("c13.fetch")
	case 2: // modify a pinned page
		m := w.pick(func(p *pgModel) bool { return p.alive && p.pins > 0 })
		w.write(m)
		vf.Cover("c13.write")
	case 3: // unpin
		m := w.pick(func(p *pgModel) bool { return p.pins > 0 })
		if !m.alive {
			// deallocated while pinned: the holder's frame is still its own until it lets go
			w.checkContent(m.handle, m, "a pinned page keeps its bytes until it is released, deallocated or not")
		}
		dirty := m.touched || vf.Choose(2) == 1
		if m.fresh && !allowCleanNew {
			dirty = true // (only the shared-pin scenario keeps this restriction; the histories release new pages clean, too)
		}
		w.bpm.UnpinPage(m.id, dirty)
		if dirty {
			m.touched = false // the modification has been reported; another holder of the page may release it clean
		}
		m.pins--
		if m.pins == 0 {
			m.touched = false
			m.handle = nil
			m.fresh = false
		}
		vf.Cover("c13.unpin")
	case 4: // flush one page
		m := w.pick(func(p *pgModel) bool { return p.alive })
		w.bpm.FlushPage(m.id)
		vf.Cover("c13.flush")
	case 5: // flush all dirty pages
		w.bpm.FlushAllDirtyPages()
		vf.Cover("c13.flushall")
	case 6: // deallocation as the skip list does it: mark while pinned, unpin, DeallocatePage(p, false)
		m := w.pick(func(p *pgModel) bool { return p.alive && p.pins == 1 })
		m.handle.SetIsDeallocated(true)
		w.bpm.UnpinPage(m.id, true)
		w.bpm.DeallocatePage(m.id, false)
		m.alive, m.pins, m.handle = false, 0, nil
		vf.Cover("c13.dealloc.wait")
	case 7: // deallocation as the hash join does it: unpinned page, DeallocatePage(p, true)
		m := w.pick(func(p *pgModel) bool { return p.alive && p.pins == 0 })
		w.bpm.DeallocatePage(m.id, true)
		m.alive = false
		vf.Cover("c13.dealloc.nowait")
	case 8: // DeallocatePage(p, true) while a user still holds the page: the id must stay out of circulation until the holder lets go
		m := w.pick(func(p *pgModel) bool { return p.alive && p.pins > 0 })
		w.bpm.DeallocatePage(m.id, true)
		m.alive = false
		vf.Cover("c13.dealloc.nowait-pinned")
	}
}

func history(pool, k int, virtual bool, allowCleanNew bool) {
	w := newWorld(pool, virtual)
	for i := 0; i < k; i++ {
		if k <= 5 {
			w.step(allowCleanNew) // all nine operations
		} else {
			w.stepOf(allowCleanNew, menu8) // longer histories: without deallocation of pinned pages
		}
	}
	// final audit: every live page still reads back its latest bytes
	for _, m := range w.pages {
		if m.alive && (m.pins > 0 || w.pinnedPages() < w.pool) {
			pg := w.bpm.FetchPage(m.id)
			vf.Assert(pg != nil, "final fetch succeeds")
			w.checkContent(pg, m, "final audit: page holds its latest bytes")
			w.bpm.UnpinPage(m.id, false)
		}
	}
}

// shared pins: starts from a page that is on disk and clean, then k operations out of {new, fetch, write,
// unpin}: several holders of one page, one reports its modification (dirty unpin), the others release clean
func sharedPins(pool, k int) {
	w := newWorld(pool, false)
	pg := w.bpm.NewPage()
	m := &pgModel{id: pg.GetPageID(), shadow: new([4096]byte), alive: true, pins: 1, handle: pg, fresh: true}
	w.pages = append(w.pages, m)
	w.write(m)
	w.bpm.UnpinPage(m.id, true)
	m.pins, m.touched, m.handle, m.fresh = 0, false, nil, false
	w.bpm.FlushPage(m.id)
	for i := 0; i < k; i++ {
		w.stepOf(true, []int{0, 1, 2, 3})
	}
	for _, m := range w.pages {
		if m.alive && (m.pins > 0 || w.pinnedPages() < w.pool) {
			pg := w.bpm.FetchPage(m.id)
			vf.Assert(pg != nil, "final fetch succeeds")
			w.checkContent(pg, m, "final audit: page holds its latest bytes")
			w.bpm.UnpinPage(m.id, false)
		}
	}
}

func VF_C13_Shared_P1_K7() { sharedPins(1, 7) }
func VF_C13_Shared_P2_K7() { sharedPins(2, 7) }

func VF_C13_File_P1_K4()  { history(1, 4, false, true) }
func VF_C13_File_P2_K4()  { history(2, 4, false, true) }
func VF_C13_File_P2_K5()  { history(2, 5, false, true) }
func VF_C13_File_P3_K5()  { history(3, 5, false, true) }
func VF_C13_File_P2_K6()  { history(2, 6, false, true) }
func VF_C13_File_P2_K7()  { history(2, 7, false, true) }
func VF_C13_File_P3_K6()  { history(3, 6, false, true) }
func VF_C13_Virt_P1_K4()  { history(1, 4, true, true) }
func VF_C13_Virt_P2_K4()  { history(2, 4, true, true) }
func VF_C13_Virt_P2_K5()  { history(2, 5, true, true) }
func VF_C13_Virt_P2_K6()  { history(2, 6, true, true) }
func VF_C13_CleanNew_P1_K4() { history(1, 4, false, true) }
func VF_C13_CleanNew_P2_K5() { history(2, 5, false, true) }
