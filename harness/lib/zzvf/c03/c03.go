//go:build verif

// C03 — abort restores the exact pre-transaction state; C07 — indexes agree with their table whenever no
// transaction is active. Shared scenario: committed rows, one transaction of up to two statements chosen
// from insert / in-place update / shrinking update (relocates the row) / growing update / key-changing
// update / delete, then commit or abort, then audits.
package c03

import (
	"github.com/ryogrid/SamehadaDB/lib/execution/expression"
	"github.com/ryogrid/SamehadaDB/lib/parser"
	"github.com/ryogrid/SamehadaDB/lib/storage/access"
	"github.com/ryogrid/SamehadaDB/lib/storage/index/index_constants"
	"github.com/ryogrid/SamehadaDB/lib/types"
	"github.com/ryogrid/SamehadaDB/lib/zzvf/sysx"
	"github.com/ryogrid/SamehadaDB/lib/zzvf/vf"
)

type row struct {
	a   int32
	tag int32
	s   string
}

func val() int32 {
	v := vf.I32()
	vf.Assume(v != 2147483647 && v != -2147483648)
	return v
}

type world struct {
	db   *sysx.DB
	rows []row // committed content
	next int32
}

func setup(kind index_constants.IndexKind, n int) *world {
	db := sysx.Open("vfc03", 32)
	db.CreateTable("t1", []sysx.ColDef{{"a", types.Integer, kind}, {"tag", types.Integer, index_constants.IndexKindInvalid}, {"s", types.Varchar, index_constants.IndexKindInvalid}})
	w := &world{db: db, next: 1}
	for i := 0; i < n; i++ {
		r := row{val(), w.next, "medium-string"}
		w.next++
		if kind == index_constants.IndexKindUniqSkipList {
			for _, o := range w.rows {
				vf.Assume(o.a != r.a)
			}
		}
		_, _, ab := db.Auto(sysx.Insert("t1", []string{"a", "tag", "s"}, []types.Value{types.NewInteger(r.a), types.NewInteger(r.tag), types.NewVarchar(r.s)}))
		vf.Assert(!ab, "setup insert is not aborted")
		w.rows = append(w.rows, r)
	}
	return w
}

var stmtNames = []string{"insert", "update-in-place", "update-shrinking(relocates)", "update-growing", "update-key", "delete"}

func byTag(tag int32) *parser.BinaryOpExpression {
	return sysx.Cmp("tag", expression.Equal, types.NewInteger(tag), false)
}

// executes one statement inside txn and applies it to the working copy
func (w *world) stmt(txn *access.Transaction, work []row, uniq bool) []row {
	kind := vf.Choose(len(stmtNames))
	vf.Note("stmt", stmtNames[kind])
	if kind != 0 && len(work) == 0 {
		vf.Assume(false)
	}
	pick := func() int { return vf.Choose(len(work)) }
	switch kind {
	case 0:
		r := row{val(), w.next, "new"}
		w.next++
		if uniq {
			for _, o := range work {
				vf.Assume(o.a != r.a)
			}
		}
		w.db.Exec(sysx.Insert("t1", []string{"a", "tag", "s"}, []types.Value{types.NewInteger(r.a), types.NewInteger(r.tag), types.NewVarchar(r.s)}), txn)
		work = append(work, r)
	case 1:
		i := pick()
		w.db.Exec(sysx.Update("t1", []string{"s"}, []types.Value{types.NewVarchar("MEDIUM-STRING")}, byTag(work[i].tag)), txn)
		work[i].s = "MEDIUM-STRING"
	case 2:
		i := pick()
		w.db.Exec(sysx.Update("t1", []string{"s"}, []types.Value{types.NewVarchar("x")}, byTag(work[i].tag)), txn)
		work[i].s = "x"
	case 3:
		i := pick()
		w.db.Exec(sysx.Update("t1", []string{"s"}, []types.Value{types.NewVarchar("a considerably longer string than before")}, byTag(work[i].tag)), txn)
		work[i].s = "a considerably longer string than before"
	case 4:
		i := pick()
		na := val()
		if uniq {
			for _, o := range work {
				vf.Assume(o.a != na)
			}
		}
		w.db.Exec(sysx.Update("t1", []string{"a"}, []types.Value{types.NewInteger(na)}, byTag(work[i].tag)), txn)
		work[i].a = na
	case 5:
		i := pick()
		w.db.Exec(sysx.Delete("t1", byTag(work[i].tag)), txn)
		work = append(work[:i], work[i+1:]...)
	}
	vf.Assert(txn.GetState() != access.ABORTED, "statement of a lone transaction is not aborted")
	return work
}

// the table (through the sequential executor) equals the model, row by row
func (w *world) tableEquals(model []row, what string) {
	rows, sc, ab := w.db.SelectAll("t1")
	vf.Assert(!ab, what+": scan is not aborted")
	vf.Assert(len(rows) == len(model), what+": table holds exactly the expected number of rows")
	for _, m := range model {
		found := 0
		for _, r := range rows {
			if r.GetValue(sc, 1).ToInteger() == m.tag {
				found++
				vf.Assert(r.GetValue(sc, 0).ToInteger() == m.a, what+": row holds its key")
				vf.Assert(r.GetValue(sc, 2).ToVarchar() == m.s, what+": row holds its string")
			}
		}
		vf.Assert(found == 1, what+": every expected row is there exactly once")
	}
}

// index-driven statements answer like the model
func (w *world) indexQueries(model []row, what string) {
	c := val()
	rows, _, ab := w.db.Auto(sysx.Select("t1", []string{"a", "tag"}, sysx.Cmp("a", expression.GreaterThanOrEqual, types.NewInteger(c), false)))
	vf.Assert(!ab, what+": index range query is not aborted")
	want := 0
	for _, m := range model {
		if m.a >= c {
			want++
		}
	}
	vf.Assert(len(rows) == want, what+": index range query returns the reference answer")
}

func scenario(kind index_constants.IndexKind, n int, nstmt int, abort bool) {
	uniq := kind == index_constants.IndexKindUniqSkipList
	w := setup(kind, n)
	before := w.db.Pins()
	tm := w.db.Shi.GetTransactionManager()
	txn := tm.Begin(nil)
	work := append([]row{}, w.rows...)
	for i := 0; i < nstmt; i++ {
		work = w.stmt(txn, work, uniq)
	}
	what := "after commit"
	if abort {
		tm.Abort(w.db.Cat, txn)
		what = "after abort"
		vf.Cover("c03.aborted")
	} else {
		tm.Commit(w.db.Cat, txn)
		w.rows = work
		vf.Cover("c03.committed")
	}
	w.tableEquals(w.rows, what)
	if kind != index_constants.IndexKindInvalid {
		w.db.IndexAudit("t1", 0, what)
		w.indexQueries(w.rows, what)
	}
	vf.Assert(sysx.SamePins(before, w.db.Pins()), what+": no additional page pinned")
	// later transactions can reuse the space without disturbing other rows
	r := row{val(), 99, "follow-up"}
	if uniq {
		for _, o := range w.rows {
			vf.Assume(o.a != r.a)
		}
	}
	_, _, ab := w.db.Auto(sysx.Insert("t1", []string{"a", "tag", "s"}, []types.Value{types.NewInteger(r.a), types.NewInteger(r.tag), types.NewVarchar(r.s)}))
	vf.Assert(!ab, what+": a following insert is not aborted (no lock left behind)")
	w.tableEquals(append(append([]row{}, w.rows...), r), what+", following insert")
	if kind != index_constants.IndexKindInvalid {
		w.db.IndexAudit("t1", 0, what+", following insert")
	}
}

const sl = index_constants.IndexKindSkipList
const usl = index_constants.IndexKindUniqSkipList
const none = index_constants.IndexKindInvalid

func VF_C03_Abort_SL_1x1()  { scenario(sl, 1, 1, true) }
func VF_C03_Abort_SL_2x1()  { scenario(sl, 2, 1, true) }
func VF_C03_Abort_SL_1x2()  { scenario(sl, 1, 2, true) }
func VF_C03_Abort_SL_2x2()  { scenario(sl, 2, 2, true) }
func VF_C03_Abort_USL_1x2() { scenario(usl, 1, 2, true) }
func VF_C03_Abort_None_1x2() { scenario(none, 1, 2, true) }
func VF_C07_Commit_SL_1x1() { scenario(sl, 1, 1, false) }
func VF_C07_Commit_SL_2x1() { scenario(sl, 2, 1, false) }
func VF_C07_Commit_SL_1x2() { scenario(sl, 1, 2, false) }
func VF_C07_Commit_SL_2x2() { scenario(sl, 2, 2, false) }
func VF_C07_Commit_USL_1x2() { scenario(usl, 1, 2, false) }
