//go:build verif

// C01 / C02 — committed work survives any crash; losers leave no trace.
// A bounded history of transactions runs on the real engine over the file model; the crash point is a
// choice over every prefix of the I/O trace (optionally tearing the next write); the real start-up path
// (NewSamehadaDB: Redo, Undo, log truncation, catalog reload) then runs on the crash image.
package c01

import (
	"github.com/ryogrid/SamehadaDB/lib/execution/expression"
	"github.com/ryogrid/SamehadaDB/lib/storage/access"
	"github.com/ryogrid/SamehadaDB/lib/storage/index/index_constants"
	"github.com/ryogrid/SamehadaDB/lib/types"
	"github.com/ryogrid/SamehadaDB/lib/zzvf/sysx"
	"github.com/ryogrid/SamehadaDB/lib/zzvf/vf"
)

const dbName = "vfc01"

type state map[int32]int32 // tag -> payload

func (s state) clone() state {
	n := state{}
	for k, v := range s {
		n[k] = v
	}
	return n
}

type commitRec struct {
	start, end int // I/O trace length when Commit was called / had returned
	st         state
}

type world struct {
	r       *sysx.Real
	cur     state // committed state
	commits []commitRec
	nextTag int32
	depth2  bool
	big     bool
	tornAt  int // >0: with torn == true only this I/O operation (a log write) is torn
	tearCut int // >0: the torn write loses exactly its last tearCut bytes (20 = a COMMIT record) instead of a symbolic cut
}

var bigStr = func() string {
	b := make([]byte, 1500)
	for i := range b {
		b[i] = 'z'
	}
	return string(b)
}()

// index kind of t1.tag (set by the *Idx entries before open): index pages are allocated but not logged
var tagIndex = index_constants.IndexKindInvalid

func open(frames int) *world {
	r := sysx.OpenReal(dbName, frames*4)
	r.CreateTable("t1", []sysx.ColDef{{"tag", types.Integer, tagIndex}, {"v", types.Integer, index_constants.IndexKindInvalid}, {"s", types.Varchar, index_constants.IndexKindInvalid}})
	w := &world{r: r, cur: state{}, nextTag: 1}
	w.commits = append(w.commits, commitRec{0, vf.FsTraceLen(), state{}})
	return w
}

var opNames = []string{"insert", "update", "delete"}
var endNames = []string{"commit", "abort", "in-flight"}

// one transaction with one statement; returns false when it was left in flight
func (w *world) txn(allowInFlight bool) bool {
	tm := w.r.Shi.GetTransactionManager()
	t := tm.Begin(nil)
	work := w.cur.clone()
	op := vf.Choose(3)
	var tags []int32
	for k := range w.cur {
		tags = append(tags, k)
	}
	if op != 0 && len(tags) == 0 {
		vf.Assume(false)
	}
	switch op {
	case 0:
		v := vf.I32()
		tag := w.nextTag
		w.nextTag++
		str := "s"
		if w.big {
			str = bigStr // three of these fill a page: the heap grows a second page
		}
		w.r.Exec(sysx.Insert("t1", []string{"tag", "v", "s"}, []types.Value{types.NewInteger(tag), types.NewInteger(v), types.NewVarchar(str)}), t)
		work[tag] = v
	case 1:
		tag := tags[vf.Choose(len(tags))]
		v := vf.I32()
		w.r.Exec(sysx.Update("t1", []string{"v"}, []types.Value{types.NewInteger(v)}, sysx.Cmp("tag", expression.Equal, types.NewInteger(tag), false)), t)
		work[tag] = v
	case 2:
		tag := tags[vf.Choose(len(tags))]
		w.r.Exec(sysx.Delete("t1", sysx.Cmp("tag", expression.Equal, types.NewInteger(tag), false)), t)
		delete(work, tag)
	}
	vf.Assert(t.GetState() != access.ABORTED, "statement of a lone transaction is not aborted")
	ends := 2
	if allowInFlight {
		ends = 3
	}
	end := vf.Choose(ends)
	vf.Note("txn", opNames[op]+"/"+endNames[end])
	switch end {
	case 0:
		start := vf.FsTraceLen()
		tm.Commit(w.r.Cat, t)
		w.cur = work
		w.commits = append(w.commits, commitRec{start, vf.FsTraceLen(), work})
	case 1:
		tm.Abort(w.r.Cat, t)
	case 2:
		// force the in-flight transaction's log records and pages out, as eviction / checkpoint would
		if vf.Choose(2) == 1 {
			w.r.Shi.GetLogManager().Flush()
			w.r.Shi.GetBufferPoolManager().FlushAllDirtyPages()
			vf.Note("flush", "in-flight work flushed")
		}
		return false
	}
	return true
}

// crash at I/O prefix k, restart with the real start-up path, compare with the committed model
func (w *world) crashAndCheck(onlyAfterLastCommit bool) { w.crashAndCheckT(onlyAfterLastCommit, false) }

func (w *world) crashAndCheckT(onlyAfterLastCommit bool, torn bool) {
	n := vf.FsTraceLen()
	last := w.commits[len(w.commits)-1]
	lo := w.commits[0].end // crash points during the initial bootstrap / CREATE TABLE are outside this check (C10)
	if onlyAfterLastCommit {
		lo = last.end
	}
	k := lo + vf.Choose(n-lo+1)
	vf.Note("crash-at", k)
	vf.Note("trace-len", n)
	w.r.Sdb.ShutdownForTescase() // stops the old instance's threads and closes its files (no writes)
	tear := 0
	if torn {
		// the k-th write (a log write) reaches the disk only for its first `tear` bytes
		vf.Assume(vf.FsTraceIsWrite(k, ".log"))
		if w.tornAt > 0 && vf.FsTraceKind(0) != "" { // (the trace is visible in the engine only; the native replay gets k from the vector)
			vf.Assume(k == w.tornAt)
		}
		if w.tearCut > 0 {
			// concrete cut (natively the crash image computed by the engine is installed, the value is not used there)
			tear = vf.FsTraceWriteLen(k) - w.tearCut
		} else {
			tear = vf.Int()
			vf.Assume(tear >= 0 && tear <= vf.FsTraceWriteLen(k))
		}
		vf.Cover("c01.torn")
	}
	vf.FsCrash(k, tear)
	// which committed states are acceptable at this crash point
	var allowed []state
	base := w.commits[0].st
	for _, c := range w.commits {
		if c.end <= k {
			base = c.st
		}
	}
	allowed = append(allowed, base)
	for _, c := range w.commits {
		if (c.start < k || (torn && c.start == k)) && k < c.end {
			allowed = append(allowed, c.st) // commit was in progress: all or nothing
		}
	}
	r2 := sysx.OpenReal(dbName, 200)
	vf.Cover("c01.restarted")
	if w.depth2 {
		// C20: crash again at every prefix of the I/O the recovery run itself performed, then restart again
		n2 := vf.FsTraceLen()
		k2 := vf.Choose(n2 + 1)
		vf.Note("second-crash-at", k2)
		vf.Note("recovery-trace-len", n2)
		r2.Sdb.ShutdownForTescase()
		vf.FsCrash(k2, 0)
		r2 = sysx.OpenReal(dbName, 200)
		vf.Cover("c20.second-restart")
	}
	tm := r2.Cat.GetTableByName("t1")
	if tm == nil {
		// crash before the table's creation was durable
		vf.Assert(k < w.commits[0].end, "table created before the crash is still there")
		vf.Cover("c01.crash-before-create")
		return
	}
	rows, sc, ab := r2.SelectAll("t1")
	vf.Assert(!ab, "scan after restart is not aborted")
	got := state{}
	for _, row := range rows {
		tag := row.GetValue(sc, 0).ToInteger()
		_, dup := got[tag]
		vf.Assert(!dup, "no row appears twice after restart")
		got[tag] = row.GetValue(sc, 1).ToInteger()
		wantS := "s"
		if w.big {
			wantS = bigStr
		}
		vf.Assert(row.GetValue(sc, 2).ToVarchar() == wantS, "the string column of every row reads back as stored")
	}
	ok := false
	for _, a := range allowed {
		same := len(a) == len(got)
		for tag, v := range a {
			gv, there := got[tag]
			same = same && there && vf.Implies(true, gv == v)
		}
		if same {
			ok = true
		}
	}
	vf.Assert(ok, "table after restart equals a committed state allowed at the crash point")
	vf.Cover("c01.checked")
	// the restarted database accepts new work
	_, _, ab2 := r2.Auto(sysx.Insert("t1", []string{"tag", "v", "s"}, []types.Value{types.NewInteger(99), types.NewInteger(7), types.NewVarchar("after")}))
	vf.Assert(!ab2, "restarted database accepts a new statement")
	rows2, _, _ := r2.SelectAll("t1")
	vf.Assert(len(rows2) == len(got)+1, "new row is visible next to the recovered ones")
	// ... and keeps it: the process is killed right after that commit returned, then restarted once more
	r2.Sdb.ShutdownForTescase()
	vf.FsCrash(vf.FsTraceLen(), 0)
	r3 := sysx.OpenReal(dbName, 200)
	rows3, sc3, ab3 := r3.SelectAll("t1")
	vf.Assert(!ab3, "scan after the final restart is not aborted")
	n99 := 0
	for _, row := range rows3 {
		if row.GetValue(sc3, 0).ToInteger() == 99 {
			n99++
		}
	}
	vf.Assert(n99 == 1 && len(rows3) == len(got)+1, "a row committed after the recovery survives the next crash")
	vf.Cover("c01.post-recovery-commit-durable")
}

func history(ntxn int, onlyAfterLastCommit bool) { historyT(ntxn, onlyAfterLastCommit, false) }

func historyT(ntxn int, onlyAfterLastCommit bool, torn bool) {
	historyD(ntxn, onlyAfterLastCommit, torn, false)
}

func historyD(ntxn int, onlyAfterLastCommit bool, torn bool, depth2 bool) {
	w := open(50)
	w.depth2 = depth2
	for i := 0; i < ntxn; i++ {
		if !w.txn(i == ntxn-1) {
			break
		}
	}
	w.crashAndCheckT(onlyAfterLastCommit, torn)
}

// torn log tail: the last log write before the crash is cut at an arbitrary (symbolic) byte
func VF_C01_Torn_T2() { historyT(2, true, true) }
func VF_C02_Torn_T1() { historyT(1, false, true) }
func VF_C02_Torn_T2() { historyT(2, false, true) }

// C01: crash points after the last commit returned; C02: every crash point
func VF_C01_T1() { history(1, true) }
func VF_C01_T2() { history(2, true) }
func VF_C01_T3() { history(3, true) }
func VF_C02_T1() { history(1, false) }
func VF_C02_T2() { history(2, false) }
func VF_C02_T3() { history(3, false) }

// C20: recovery interrupted by a second crash at every point of its own I/O, then repeated
func VF_C20_T1() { historyD(1, false, false, true) }
func VF_C20_T2() { historyD(2, false, false, true) }
func VF_C20_T3() { historyD(3, false, false, true) }

// a table that grows a second page: three committed 1.5 KB rows, then one more transaction, then the crash
var growDepth2 = false

func grow(onlyAfterLastCommit bool) {
	w := open(50)
	w.big = true
	w.depth2 = growDepth2
	tm := w.r.Shi.GetTransactionManager()
	for i := 0; i < 2; i++ {
		t := tm.Begin(nil)
		v := vf.I32()
		w.r.Exec(sysx.Insert("t1", []string{"tag", "v", "s"}, []types.Value{types.NewInteger(w.nextTag), types.NewInteger(v), types.NewVarchar(bigStr)}), t)
		start := vf.FsTraceLen()
		tm.Commit(w.r.Cat, t)
		w.cur = w.cur.clone()
		w.cur[w.nextTag] = v
		w.nextTag++
		w.commits = append(w.commits, commitRec{start, vf.FsTraceLen(), w.cur})
	}
	w.txn(true) // third big insert goes to a new page (or an update / delete of a big row)
	vf.Cover("c01.grow")
	w.crashAndCheck(onlyAfterLastCommit)
}

func VF_C01_Grow() { grow(true) }
func VF_C02_Grow() { grow(false) }

// Earlier sessions in the history: between the transactions the database is closed — by Shutdown() or by
// the process being killed while idle (everything issued so far is on disk) — and reopened by the real
// start-up path (which truncates the log). The committed model carries over; crash points are counted
// from the last reopen.
func (w *world) boundary() {
	kind := vf.Choose(2)
	vf.Note("boundary", []string{"shutdown", "killed-idle"}[kind])
	if kind == 0 {
		w.r.Sdb.Shutdown()
	} else {
		w.r.Sdb.ShutdownForTescase()
		vf.FsCrash(vf.FsTraceLen(), 0)
	}
	w.r = sysx.OpenReal(dbName, 200)
	vf.Assert(w.r.Cat.GetTableByName("t1") != nil, "table is still there after a reopen")
	w.commits = []commitRec{{0, vf.FsTraceLen(), w.cur}}
	vf.Cover("c01.boundary")
}

func reopened(nb int, onlyAfterLastCommit bool, depth2 bool) {
	w := open(50)
	w.depth2 = depth2
	w.txn(false)
	for i := 0; i < nb; i++ {
		w.boundary()
	}
	w.txn(true)
	w.crashAndCheck(onlyAfterLastCommit)
}

func VF_C01_Reopened1() { reopened(1, true, false) }
func VF_C01_Reopened2() { reopened(2, true, false) }
func VF_C02_Reopened2() { reopened(2, false, false) }
func VF_C20_Reopened2() { reopened(2, false, true) }

// the same with a skip-list index on t1.tag: its pages sit between the table's first and second heap page,
// are never written before the crash and are rebuilt (newly allocated) by the restart
func VF_C01_GrowIdx() {
	tagIndex = index_constants.IndexKindSkipList
	grow(true)
}

// the table grows a second page (logged, not written), then another table is created: its first page is
// flushed at creation and lies behind the unwritten one, which is a hole of zero bytes in the db file
func VF_C01_GrowThenCreate() {
	w := open(50)
	w.big = true
	tm := w.r.Shi.GetTransactionManager()
	for i := 0; i < 3; i++ {
		t := tm.Begin(nil)
		v := vf.I32()
		w.r.Exec(sysx.Insert("t1", []string{"tag", "v", "s"}, []types.Value{types.NewInteger(w.nextTag), types.NewInteger(v), types.NewVarchar(bigStr)}), t)
		start := vf.FsTraceLen()
		tm.Commit(w.r.Cat, t)
		w.cur = w.cur.clone()
		w.cur[w.nextTag] = v
		w.nextTag++
		w.commits = append(w.commits, commitRec{start, vf.FsTraceLen(), w.cur})
	}
	w.r.CreateTable("t2", []sysx.ColDef{{"x", types.Integer, index_constants.IndexKindInvalid}})
	vf.Cover("c01.grow-then-create")
	w.crashAndCheck(true)
}

// C20 on the growing table: the recovery which re-creates the unwritten page is itself interrupted at every point
func VF_C20_Grow() {
	growDepth2 = true
	grow(true)
}
func VF_C20_GrowIdx() {
	growDepth2 = true
	tagIndex = index_constants.IndexKindSkipList
	grow(true)
}

// A log larger than the log buffer (LogBufferSize, 528 KB): an early transaction stays in flight, a second one
// commits 360 rows of 1.5 KB, crash. Undo reads the loser's records near the start of the log; whatever the
// recovery run writes to the log afterwards must not damage the records which are still needed if the
// recovery is itself cut short (second crash within a few I/O operations after its first log write).
func VF_C20_BigLog() { bigLog(true) }

// the same history with a single, uninterrupted recovery
func VF_C01_BigLog() { bigLog(false) }

func bigLog(second bool) {
	w := open(50)
	tm := w.r.Shi.GetTransactionManager()
	t1 := tm.Begin(nil)
	w.r.Exec(sysx.Insert("t1", []string{"tag", "v", "s"}, []types.Value{types.NewInteger(100000), types.NewInteger(1), types.NewVarchar("loser")}), t1)
	t2 := tm.Begin(nil)
	model := state{}
	v := vf.I32()
	for i := 0; i < 360; i++ {
		w.r.Exec(sysx.Insert("t1", []string{"tag", "v", "s"}, []types.Value{types.NewInteger(int32(i + 1)), types.NewInteger(v), types.NewVarchar(bigStr)}), t2)
		model[int32(i+1)] = v
	}
	vf.Assert(t2.GetState() != access.ABORTED, "bulk insert is not aborted")
	tm.Commit(w.r.Cat, t2)
	w.r.Sdb.ShutdownForTescase()
	vf.FsCrash(vf.FsTraceLen(), 0)
	r2 := sysx.OpenReal(dbName, 200)
	r3 := r2
	if second {
		r3 = bigLogSecondCrash(r2)
	}
	bigLogCheck(r3, model)
}

func bigLogSecondCrash(r2 *sysx.Real) *sysx.Real {
	n2 := vf.FsTraceLen()
	first := -1
	for j := 0; j < n2; j++ {
		if vf.FsTraceIsWrite(j, ".log") {
			first = j
			break
		}
	}
	vf.Assume(first >= 0)
	k2 := first + 1 + vf.Choose(3)
	vf.Assume(k2 <= n2)
	vf.Note("second-crash-at", k2)
	vf.Note("recovery-trace-len", n2)
	r2.Sdb.ShutdownForTescase()
	vf.FsCrash(k2, 0)
	return sysx.OpenReal(dbName, 200)
}

func bigLogCheck(r3 *sysx.Real, model state) {
	rows, sc, ab := r3.SelectAll("t1")
	vf.Assert(!ab, "scan after the restart is not aborted")
	got := state{}
	for _, row := range rows {
		got[row.GetValue(sc, 0).ToInteger()] = row.GetValue(sc, 1).ToInteger()
		vf.Assert(row.GetValue(sc, 2).ToVarchar() == bigStr, "every row holds its 1.5 KB string unchanged")
	}
	vf.Assert(len(rows) == len(model) && len(got) == len(model), "exactly the committed rows are there after the interrupted and repeated recovery")
	for tag, mv := range model {
		gv, ok := got[tag]
		vf.Assert(ok && gv == mv, "every committed row is there with its value")
	}
	vf.Cover("c20.biglog")
}

// a loser whose records lie on both sides of a page allocation: two committed 1.5 KB rows, then one transaction
// updates (or deletes) the first row and inserts a third 1.5 KB row, which makes the table grow a page; it is
// left in flight (optionally with log and pages forced out) or aborted, or committed; crash at every point
func VF_C02_GrowLoser() {
	w := open(50)
	w.big = true
	tm := w.r.Shi.GetTransactionManager()
	for i := 0; i < 2; i++ {
		t := tm.Begin(nil)
		v := vf.I32()
		w.r.Exec(sysx.Insert("t1", []string{"tag", "v", "s"}, []types.Value{types.NewInteger(w.nextTag), types.NewInteger(v), types.NewVarchar(bigStr)}), t)
		start := vf.FsTraceLen()
		tm.Commit(w.r.Cat, t)
		w.cur = w.cur.clone()
		w.cur[w.nextTag] = v
		w.nextTag++
		w.commits = append(w.commits, commitRec{start, vf.FsTraceLen(), w.cur})
	}
	t := tm.Begin(nil)
	work := w.cur.clone()
	if vf.Choose(2) == 0 {
		nv := vf.I32()
		w.r.Exec(sysx.Update("t1", []string{"v"}, []types.Value{types.NewInteger(nv)}, sysx.Cmp("tag", expression.Equal, types.NewInteger(1), false)), t)
		work[1] = nv
		vf.Note("first-statement", "update")
	} else {
		w.r.Exec(sysx.Delete("t1", sysx.Cmp("tag", expression.Equal, types.NewInteger(1), false)), t)
		delete(work, 1)
		vf.Note("first-statement", "delete")
	}
	v3 := vf.I32()
	w.r.Exec(sysx.Insert("t1", []string{"tag", "v", "s"}, []types.Value{types.NewInteger(3), types.NewInteger(v3), types.NewVarchar(bigStr)}), t)
	work[3] = v3
	vf.Assert(t.GetState() != access.ABORTED, "statements of a lone transaction are not aborted")
	end := vf.Choose(3)
	vf.Note("txn", "two statements across a page allocation/"+endNames[end])
	switch end {
	case 0:
		start := vf.FsTraceLen()
		tm.Commit(w.r.Cat, t)
		w.cur = work
		w.commits = append(w.commits, commitRec{start, vf.FsTraceLen(), work})
	case 1:
		tm.Abort(w.r.Cat, t)
	case 2:
		if vf.Choose(2) == 1 {
			w.r.Shi.GetLogManager().Flush()
			w.r.Shi.GetBufferPoolManager().FlushAllDirtyPages()
			vf.Note("flush", "in-flight work flushed")
		}
	}
	vf.Cover("c02.grow-loser")
	w.crashAndCheck(false)
}

// a delete whose commit is cut inside its last log write, on a page where a lower slot is free: four committed
// rows, the second one deleted and committed (its slot is free), then a transaction deletes the fourth row
// and commits; the crash tears one of the log writes at a symbolic byte (e.g. between the APPLYDELETE record
// and the COMMIT record)
func VF_C02_Torn_DeleteAboveFreeSlot()      { tornDelete(false) }
func VF_C02_Torn_DeleteAboveFreeSlot_Last() { tornDelete(true) } // only the last log write (the second delete's commit) is torn

// C20: the recovery of that crash image is itself interrupted at every point and repeated
func VF_C20_CommitRecordLost_Delete() {
	tornDepth2 = true
	tornCut = 20 // exactly the COMMIT record of the second delete is lost
	tornDelete(true)
}

var tornDepth2 = false
var tornCut = 0

func tornDelete(lastOnly bool) {
	w := open(50)
	w.depth2 = tornDepth2
	w.tearCut = tornCut
	tm := w.r.Shi.GetTransactionManager()
	t := tm.Begin(nil)
	for i := 0; i < 4; i++ {
		v := vf.I32()
		w.r.Exec(sysx.Insert("t1", []string{"tag", "v", "s"}, []types.Value{types.NewInteger(w.nextTag), types.NewInteger(v), types.NewVarchar("s")}), t)
		w.cur[w.nextTag] = v
		w.nextTag++
	}
	start := vf.FsTraceLen()
	tm.Commit(w.r.Cat, t)
	w.cur = w.cur.clone()
	w.commits = append(w.commits, commitRec{start, vf.FsTraceLen(), w.cur})
	for _, tag := range []int32{2, 4} {
		t = tm.Begin(nil)
		w.r.Exec(sysx.Delete("t1", sysx.Cmp("tag", expression.Equal, types.NewInteger(tag), false)), t)
		vf.Assert(t.GetState() != access.ABORTED, "statement of a lone transaction is not aborted")
		start = vf.FsTraceLen()
		tm.Commit(w.r.Cat, t)
		w.cur = w.cur.clone()
		delete(w.cur, tag)
		w.commits = append(w.commits, commitRec{start, vf.FsTraceLen(), w.cur})
	}
	vf.Cover("c02.torn-delete")
	if lastOnly {
		for j := vf.FsTraceLen() - 1; j >= 0; j-- {
			if vf.FsTraceIsWrite(j, ".log") {
				w.tornAt = j
				break
			}
		}
	}
	w.crashAndCheckT(false, true)
}

// single recovery, the COMMIT record of the second delete lost (cheap variant of the symbolic-tear entry)
func VF_C02_CommitRecordLost_Delete() {
	tornCut = 20
	tornDelete(true)
}
