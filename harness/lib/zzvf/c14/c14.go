//go:build verif

// C14 — statements release every buffer pin they take.
// Statement kind x plan shape matrix on small tables with symbolic values; oracle: the multiset of
// pinned pages after the statement (committed or aborted) equals the one before it.
package c14

import (
	"github.com/ryogrid/SamehadaDB/lib/execution/expression"
	"github.com/ryogrid/SamehadaDB/lib/parser"
	"github.com/ryogrid/SamehadaDB/lib/storage/access"
	"github.com/ryogrid/SamehadaDB/lib/storage/index/index_constants"
	"github.com/ryogrid/SamehadaDB/lib/types"
	"github.com/ryogrid/SamehadaDB/lib/zzvf/sysx"
	"github.com/ryogrid/SamehadaDB/lib/zzvf/vf"
)

func val() int32 {
	v := vf.I32()
	vf.Assume(v != 2147483647 && v != -2147483648)
	return v
}

func setup(rows int) *sysx.DB {
	db := sysx.Open("vfc14", 32)
	db.CreateTable("t1", []sysx.ColDef{{"a", types.Integer, index_constants.IndexKindSkipList}, {"b", types.Integer, index_constants.IndexKindInvalid}, {"s", types.Varchar, index_constants.IndexKindInvalid}})
	for i := 0; i < rows; i++ {
		db.Auto(sysx.Insert("t1", []string{"a", "b", "s"}, []types.Value{types.NewInteger(val()), types.NewInteger(int32(i)), types.NewVarchar("x")}))
	}
	return db
}

var stmtNames = []string{"select-seq(OR)", "select-index-point", "select-index-range", "select-all", "insert", "update-in-place", "update-growing", "update-key", "delete-by-index", "delete-seq"}

func stmt(kind int) *parser.QueryInfo {
	c := val()
	switch kind {
	case 0:
		return sysx.Select("t1", []string{"a", "b"}, sysx.Or(sysx.Cmp("a", expression.GreaterThanOrEqual, types.NewInteger(c), false), sysx.Cmp("b", expression.Equal, types.NewInteger(77), false)))
	case 1:
		return sysx.Select("t1", []string{"a", "b"}, sysx.Cmp("a", expression.Equal, types.NewInteger(c), false))
	case 2:
		return sysx.Select("t1", []string{"a", "b"}, sysx.And(sysx.Cmp("a", expression.GreaterThanOrEqual, types.NewInteger(c), false), sysx.Cmp("b", expression.LessThan, types.NewInteger(5), false)))
	case 3:
		return sysx.Select("t1", []string{"a", "b", "s"}, nil)
	case 4:
		return sysx.Insert("t1", []string{"a", "b", "s"}, []types.Value{types.NewInteger(c), types.NewInteger(50), types.NewVarchar("new")})
	case 5:
		return sysx.Update("t1", []string{"b"}, []types.Value{types.NewInteger(9)}, sysx.Cmp("a", expression.GreaterThanOrEqual, types.NewInteger(c), false))
	case 6:
		return sysx.Update("t1", []string{"s"}, []types.Value{types.NewVarchar("a much longer string value than before")}, sysx.Cmp("a", expression.GreaterThanOrEqual, types.NewInteger(c), false))
	case 7:
		return sysx.Update("t1", []string{"a"}, []types.Value{types.NewInteger(val())}, sysx.Cmp("b", expression.Equal, types.NewInteger(0), false))
	case 8:
		return sysx.Delete("t1", sysx.Cmp("a", expression.GreaterThanOrEqual, types.NewInteger(c), false))
	default:
		return sysx.Delete("t1", sysx.Or(sysx.Cmp("b", expression.Equal, types.NewInteger(0), false), sysx.Cmp("b", expression.Equal, types.NewInteger(1), false)))
	}
}

func matrix(rows int, abort bool) {
	db := setup(rows)
	kind := vf.Choose(len(stmtNames))
	vf.Note("statement", stmtNames[kind])
	qi := stmt(kind)
	before := db.Pins()
	tm := db.Shi.GetTransactionManager()
	txn := tm.Begin(nil)
	db.Exec(qi, txn)
	vf.Assert(sysx.SamePins(before, db.Pins()), "executing the statement leaves no additional page pinned")
	if abort || txn.GetState() == access.ABORTED {
		tm.Abort(db.Cat, txn)
		vf.Cover("c14.aborted")
	} else {
		tm.Commit(db.Cat, txn)
		vf.Cover("c14.committed")
	}
	vf.Assert(sysx.SamePins(before, db.Pins()), "after commit/abort no additional page is pinned")
	// a second statement still runs in the same pool
	rows2, _, ab := db.Auto(sysx.Select("t1", []string{"a", "b", "s"}, nil))
	vf.Assert(!ab && rows2 != nil || !ab, "a following statement runs")
	vf.Assert(sysx.SamePins(before, db.Pins()), "still no additional page pinned after a following statement")
}

func VF_C14_Commit_1() { matrix(1, false) }
func VF_C14_Commit_2() { matrix(2, false) }
func VF_C14_Abort_1()  { matrix(1, true) }
func VF_C14_Abort_2()  { matrix(2, true) }

// statement aborted by a lock conflict: another transaction holds an exclusive lock on the row
func VF_C14_ConflictAbort() {
	db := setup(1)
	tm := db.Shi.GetTransactionManager()
	holder := tm.Begin(nil)
	db.Exec(sysx.Update("t1", []string{"b"}, []types.Value{types.NewInteger(3)}, nil), holder)
	before := db.Pins()
	kind := vf.Choose(len(stmtNames))
	vf.Note("statement", stmtNames[kind])
	txn := tm.Begin(nil)
	db.Exec(stmt(kind), txn)
	if txn.GetState() == access.ABORTED {
		tm.Abort(db.Cat, txn)
		vf.Cover("c14.conflict.aborted")
	} else {
		tm.Commit(db.Cat, txn)
	}
	vf.Assert(sysx.SamePins(before, db.Pins()), "a statement aborted by a lock conflict leaves no additional page pinned")
	tm.Commit(db.Cat, holder)
}
