//go:build verif

package access

import (
	"github.com/ryogrid/SamehadaDB/lib/recovery"
	"github.com/ryogrid/SamehadaDB/lib/storage/page"
	"github.com/ryogrid/SamehadaDB/lib/storage/tuple"
	"github.com/ryogrid/SamehadaDB/lib/types"
	"github.com/ryogrid/SamehadaDB/lib/zzvf/vf"
)

// C15 — slotted pages. One inductive step from an arbitrary valid page: the page image is a free SMT
// array constrained only by the representation invariant vfInv(tp, n), n = stated bound on slots.

const vfPageSize = uint32(4096)

// The invariant is written branch-free (vf.And/Or/Implies): each clause is one formula, not a fork.
// Clauses: header bounds; every slot empty or a well-formed row inside the payload area; rows pairwise
// disjoint; rows tile the payload area exactly (free space reported == space not occupied).
func vfInvClauses(tp *TablePage, n uint32) (cl []bool, names []string) {
	cnt := tp.GetTupleCount()
	fsp := tp.GetFreeSpacePointer()
	cl = append(cl, vf.And(cnt <= n, vf.And(sizeTablePageHeader+sizeTuple*cnt <= fsp, fsp <= vfPageSize)))
	names = append(names, "header bounds")
	sum := uint32(0)
	for i := uint32(0); i < n; i++ {
		off := tp.GetTupleOffsetAtSlot(i)
		raw := tp.GetTupleSize(i)
		sz := UnsetDeletedFlag(raw)
		in := i < cnt
		empty := vf.And(raw == 0, off == 0)
		occ := vf.And(sz >= 1, vf.And(fsp <= off, vf.And(off <= vfPageSize, sz <= vfPageSize-off)))
		cl = append(cl, vf.Implies(in, vf.Or(empty, occ)))
		names = append(names, "slot well-formed")
		sum += vf.Ite32(vf.And(in, raw != 0), sz, 0)
		for j := i + 1; j < n; j++ {
			off2 := tp.GetTupleOffsetAtSlot(j)
			raw2 := tp.GetTupleSize(j)
			sz2 := UnsetDeletedFlag(raw2)
			both := vf.And(vf.And(in, j < cnt), vf.And(raw != 0, raw2 != 0))
			cl = append(cl, vf.Implies(both, vf.Or(off+sz <= off2, off2+sz2 <= off)))
			names = append(names, "rows disjoint")
		}
	}
	cl = append(cl, sum == vfPageSize-fsp)
	names = append(names, "rows tile the payload area")
	return
}

func vfAssumeInv(tp *TablePage, n uint32) {
	cl, _ := vfInvClauses(tp, n)
	for _, c := range cl {
		vf.Assume(c)
	}
}

func vfAssertInv(tp *TablePage, n uint32) {
	cl, names := vfInvClauses(tp, n)
	for i, c := range cl {
		vf.Assert(c, "invariant preserved: "+names[i])
	}
}

type vfPg struct {
	pg  *page.Page
	tp  *TablePage
	txn *Transaction
	lm  *recovery.LogManager
}

func vfPre(n uint32) *vfPg {
	pg := page.New(types.PageID(vf.I32()), false, vf.Page())
	tp := CastPageAsTablePage(pg)
	vfAssumeInv(tp, n)
	txn := NewTransaction(types.TxnID(1))
	txn.SetIsRecoveryPhase(true) // page-level operations without the lock manager, as redo/undo run them
	return &vfPg{pg, tp, txn, new(recovery.LogManager)}
}

// occupied slot chosen by case split
func vfPickSlot(tp *TablePage, n int) uint32 {
	k := uint32(vf.Choose(n))
	vf.Assume(vf.And(k < tp.GetTupleCount(), tp.GetTupleSize(k) != 0))
	return k
}

type vfWitness struct {
	m      uint32
	j      uint32
	raw    uint32
	before byte
	valid  bool
}

// witness: another occupied slot m != k and an arbitrary (Skolem) byte j of its row
func vfPickWitness(tp *TablePage, n int, k uint32) *vfWitness {
	m := uint32(vf.Choose(n))
	vf.Assume(m != k)
	vf.Assume(vf.And(m < tp.GetTupleCount(), tp.GetTupleSize(m) != 0))
	raw := tp.GetTupleSize(m)
	j := vf.U32()
	vf.Assume(j < UnsetDeletedFlag(raw))
	if k < uint32(n) {
		// case split on the witness lying below / above the target row (helps the solver; both explored)
		if tp.GetTupleOffsetAtSlot(m) < tp.GetTupleOffsetAtSlot(k) {
			vf.Cover("c15.witness.below")
		} else {
			vf.Cover("c15.witness.above")
		}
	}
	return &vfWitness{m: m, j: j, raw: raw, before: tp.Data()[tp.GetTupleOffsetAtSlot(m)+j]}
}

func (w *vfWitness) check(tp *TablePage) {
	vf.Assert(tp.GetTupleSize(w.m) == w.raw, "another row keeps its size and delete mark")
	vf.Assert(tp.Data()[tp.GetTupleOffsetAtSlot(w.m)+w.j] == w.before, "another row keeps its bytes")
}

func vfUnchanged(tp *TablePage, before *[4096]byte, what string) {
	j := vf.U32()
	vf.Assume(j < vfPageSize)
	vf.Assert(tp.Data()[j] == before[j], what)
}

func vfN(n int) (int, uint32) { return n, uint32(n) }

func vfC15Insert(nn int) {
	n, un := vfN(nn)
	p := vfPre(un)
	tp := p.tp
	data := vf.BytesN(4096)
	vf.Assume(len(data) >= 1)
	size := uint32(len(data))
	before := *tp.Data()
	cnt0, free0 := tp.GetTupleCount(), tp.getFreeSpaceRemaining()
	hasW := vf.Choose(2) == 1
	var w *vfWitness
	if hasW {
		w = vfPickWitness(tp, n, 0xffffffff)
	}
	tpl := tuple.NewTuple(nil, size, data)
	rid, err := tp.InsertTuple(tpl, p.lm, nil, p.txn)
	if err != nil {
		vf.Cover("c15.insert.refused")
		vf.Assert(err == ErrNotEnoughSpace, "only refusal is not-enough-space")
		vf.Assert(free0 < size+sizeTuple, "refused only when space is really missing")
		vfUnchanged(tp, &before, "refused insert leaves the page unchanged")
		return
	}
	vf.Cover("c15.insert.done")
	vf.Assert(free0 >= size+sizeTuple, "accepted only when there is room for row and slot")
	s := rid.GetSlotNum()
	vf.Assert(rid.GetPageID() == p.pg.GetPageID(), "rid carries the page id")
	vfAssertInv(tp, un+1)
	vf.Assert(s <= cnt0, "slot is a reused empty slot or the next new one")
	vf.Assert(tp.GetTupleSize(s) == size, "slot records the size")
	k := vf.U32()
	vf.Assume(k < size)
	vf.Assert(tp.Data()[tp.GetTupleOffsetAtSlot(s)+k] == data[k], "row reads back byte-identical")
	got, gerr := tp.GetTuple(rid, p.lm, nil, p.txn)
	vf.Assert(gerr == nil && got.Size() == size, "GetTuple returns the row")
	vf.Assert(got.Data()[k] == data[k], "GetTuple returns the stored bytes")
	if s == cnt0 {
		vf.Cover("c15.insert.newslot")
		vf.Assert(tp.GetTupleCount() == cnt0+1, "slot array grew by one")
		vf.Assert(tp.getFreeSpaceRemaining() == free0-size-sizeTuple, "free space shrinks by row+slot")
	} else {
		vf.Cover("c15.insert.reuse")
		vf.Assert(before[offsetTupleSize+sizeTuple*s] == 0 && tp.GetTupleCount() == cnt0, "reused slot was empty")
		vf.Assert(tp.getFreeSpaceRemaining() == free0-size, "free space shrinks by row")
	}
	if hasW {
		vf.Assert(s != w.m, "insert never takes an occupied slot")
		w.check(tp)
	}
}

func vfC15Update(nn int) {
	n, un := vfN(nn)
	p := vfPre(un)
	tp := p.tp
	k := vfPickSlot(tp, n)
	data := vf.BytesN(4096)
	vf.Assume(len(data) >= 1)
	size := uint32(len(data))
	undo := vf.Bool()
	before := *tp.Data()
	raw0 := tp.GetTupleSize(k)
	free0 := tp.getFreeSpaceRemaining()
	hasW := vf.Choose(2) == 1
	var w *vfWitness
	if hasW {
		w = vfPickWitness(tp, n, k)
	}
	rid := &page.RID{PageID: p.pg.GetPageID(), SlotNum: k}
	old := new(tuple.Tuple)
	ok, err, _ := tp.UpdateTuple(tuple.NewTuple(nil, size, data), nil, nil, old, rid, p.txn, nil, p.lm, undo)
	if !ok {
		vf.Cover("c15.update.refused")
		vfUnchanged(tp, &before, "refused update leaves the page unchanged")
		if IsDeleted(raw0) {
			vf.Assert(err == nil, "marked row: update refused without error")
		} else if err == ErrNotEnoughSpace {
			vf.Assert(free0+raw0 < size, "not-enough-space only when space is really missing")
		} else {
			vf.Assert(err == ErrRollbackDifficult && size < raw0 && !undo, "shrinking refused only outside rollback")
		}
		return
	}
	vf.Cover("c15.update.done")
	vf.Assert(!IsDeleted(raw0), "only live rows are updated")
	vfAssertInv(tp, un)
	vf.Assert(tp.GetTupleSize(k) == size, "slot records the new size")
	x := vf.U32()
	vf.Assume(x < size)
	vf.Assert(tp.Data()[tp.GetTupleOffsetAtSlot(k)+x] == data[x], "row reads back the new bytes")
	vf.Assert(tp.getFreeSpaceRemaining() == free0+raw0-size, "free space changes by exactly the size delta")
	y := vf.U32()
	vf.Assume(y < raw0)
	vf.Assert(old.Size() == raw0 && old.Data()[y] == before[uint32(types.NewUInt32FromBytes(before[offsetTupleOffset+sizeTuple*k:]))+y], "old image returned to the caller is the previous row")
	if size > raw0 {
		vf.Cover("c15.update.grow")
	}
	if size < raw0 {
		vf.Cover("c15.update.shrink")
	}
	if hasW {
		w.check(tp)
	}
}

func vfC15MarkDelete(nn int) {
	n, un := vfN(nn)
	p := vfPre(un)
	tp := p.tp
	k := vfPickSlot(tp, n)
	before := *tp.Data()
	raw0 := tp.GetTupleSize(k)
	rid := &page.RID{PageID: p.pg.GetPageID(), SlotNum: k}
	ok, tpl := tp.MarkDelete(rid, p.txn, nil, p.lm)
	j := vf.U32()
	vf.Assume(j < vfPageSize)
	if !ok {
		vf.Cover("c15.mark.refused")
		vf.Assert(IsDeleted(raw0), "mark refused only on an already marked row")
		vf.Assert(tp.Data()[j] == before[j], "refused mark leaves the page unchanged")
		return
	}
	vf.Cover("c15.mark.done")
	vf.Assert(tp.GetTupleSize(k) == SetDeletedFlag(raw0) && !IsDeleted(raw0), "row is marked, size kept")
	vfAssertInv(tp, un)
	szPos := offsetTupleSize + sizeTuple*k
	vf.Assert(vf.Implies(vf.Or(j < szPos, j >= szPos+4), tp.Data()[j] == before[j]), "mark changes nothing but the slot's size word")
	y := vf.U32()
	vf.Assume(y < raw0)
	vf.Assert(tpl.Size() == raw0 && tpl.Data()[y] == before[tp.GetTupleOffsetAtSlot(k)+y], "returned tuple is the row")
}

func vfC15ApplyDelete(nn int) {
	n, un := vfN(nn)
	p := vfPre(un)
	tp := p.tp
	k := vfPickSlot(tp, n)
	raw0 := tp.GetTupleSize(k)
	free0 := tp.getFreeSpaceRemaining()
	cnt0 := tp.GetTupleCount()
	hasW := vf.Choose(2) == 1
	var w *vfWitness
	if hasW {
		w = vfPickWitness(tp, n, k)
	}
	tp.ApplyDelete(&page.RID{PageID: p.pg.GetPageID(), SlotNum: k}, p.txn, p.lm)
	vf.Cover("c15.apply.done")
	vfAssertInv(tp, un)
	vf.Assert(tp.GetTupleSize(k) == 0 && tp.GetTupleOffsetAtSlot(k) == 0, "slot is free")
	vf.Assert(tp.GetTupleCount() == cnt0, "slot array keeps its length")
	vf.Assert(tp.getFreeSpaceRemaining() == free0+UnsetDeletedFlag(raw0), "free space grows by exactly the row")
	if hasW {
		w.check(tp)
	}
}

func vfC15RollbackDelete(nn int) {
	n, un := vfN(nn)
	p := vfPre(un)
	tp := p.tp
	k := vfPickSlot(tp, n)
	before := *tp.Data()
	raw0 := tp.GetTupleSize(k)
	tp.RollbackDelete(&page.RID{PageID: p.pg.GetPageID(), SlotNum: k}, p.txn, p.lm)
	vf.Cover("c15.rollback.done")
	vf.Assert(tp.GetTupleSize(k) == UnsetDeletedFlag(raw0), "row is live again with its size")
	vfAssertInv(tp, un)
	j := vf.U32()
	vf.Assume(j < vfPageSize)
	szPos := offsetTupleSize + sizeTuple*k
	vf.Assert(vf.Implies(vf.Or(j < szPos, j >= szPos+4), tp.Data()[j] == before[j]), "rollback changes nothing but the slot's size word")
}

func vfC15GetTuple(nn int) {
	n, un := vfN(nn)
	p := vfPre(un)
	tp := p.tp
	k := uint32(vf.Choose(n + 1))
	before := *tp.Data()
	raw0 := tp.GetTupleSize(k)
	off0 := tp.GetTupleOffsetAtSlot(k)
	cnt0 := tp.GetTupleCount()
	tpl, err := tp.GetTuple(&page.RID{PageID: p.pg.GetPageID(), SlotNum: k}, p.lm, nil, p.txn)
	vfUnchanged(tp, &before, "reading never changes the page")
	if err == nil {
		vf.Cover("c15.get.live")
		vf.Assert(k < cnt0 && !IsDeleted(raw0), "only live rows are returned")
		y := vf.U32()
		vf.Assume(y < raw0)
		vf.Assert(tpl.Size() == raw0 && tpl.Data()[y] == before[off0+y], "returned bytes are the row")
	} else {
		vf.Cover("c15.get.none")
		vf.Assert(k >= cnt0 || IsDeleted(raw0), "error only for empty, marked or out-of-range slots")
	}
}

func VF_C15_Init() {
	pg := page.New(types.PageID(vf.I32()), false, vf.Page())
	tp := CastPageAsTablePage(pg)
	txn := NewTransaction(types.TxnID(1))
	txn.SetIsRecoveryPhase(true)
	id, prev := types.PageID(vf.I32()), types.PageID(vf.I32())
	tp.Init(id, prev, new(recovery.LogManager), nil, txn, false)
	vf.Cover("c15.init")
	vfAssertInv(tp, 0)
	vf.Assert(tp.GetTupleCount() == 0 && tp.GetFreeSpacePointer() == vfPageSize, "fresh page is empty")
	vf.Assert(tp.GetNextPageID() == types.InvalidPageID, "no next page")
	vf.Assert(tp.getFreeSpaceRemaining() == vfPageSize-sizeTablePageHeader, "all space but the header is free")
}

func VF_C15_Insert2()         { vfC15Insert(2) }
func VF_C15_Update2()         { vfC15Update(2) }
func VF_C15_MarkDelete2()     { vfC15MarkDelete(2) }
func VF_C15_ApplyDelete2()    { vfC15ApplyDelete(2) }
func VF_C15_RollbackDelete2() { vfC15RollbackDelete(2) }
func VF_C15_GetTuple2()       { vfC15GetTuple(2) }
func VF_C15_Insert3()         { vfC15Insert(3) }
func VF_C15_Update3()         { vfC15Update(3) }
func VF_C15_MarkDelete3()     { vfC15MarkDelete(3) }
func VF_C15_ApplyDelete3()    { vfC15ApplyDelete(3) }
func VF_C15_RollbackDelete3() { vfC15RollbackDelete(3) }
func VF_C15_GetTuple3()       { vfC15GetTuple(3) }
func VF_C15_Insert4()         { vfC15Insert(4) }
func VF_C15_Update4()         { vfC15Update(4) }
func VF_C15_MarkDelete4()     { vfC15MarkDelete(4) }
func VF_C15_ApplyDelete4()    { vfC15ApplyDelete(4) }
func VF_C15_RollbackDelete4() { vfC15RollbackDelete(4) }
func VF_C15_GetTuple4()       { vfC15GetTuple(4) }
