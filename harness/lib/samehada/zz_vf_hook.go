//go:build verif

package samehada

import "github.com/ryogrid/SamehadaDB/lib/types"

// Test seam for C12 (injected by overlay together with a three-line guard at the top of
// ExecuteSQLRetValues; /repo itself is not modified): when set, statements are "executed" by the hook.
var vfExecSQLHook func(sdb *SamehadaDB, sqlStr string) (error, [][]*types.Value)

func SetVFExecSQLHook(f func(sdb *SamehadaDB, sqlStr string) (error, [][]*types.Value)) { vfExecSQLHook = f }
