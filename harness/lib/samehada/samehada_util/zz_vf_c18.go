//go:build verif

package samehada_util

import (
	"math"

	"github.com/ryogrid/SamehadaDB/lib/storage/page"
	"github.com/ryogrid/SamehadaDB/lib/types"
	"github.com/ryogrid/SamehadaDB/lib/zzvf/vf"
)

// arbitrary row id within the range the property states: page id in [0, 2^31), any slot
func vfRID() *page.RID {
	p := vf.I32()
	s := vf.U32()
	vf.Assume(p >= 0)
	return &page.RID{PageID: types.PageID(p), SlotNum: s}
}

func vfEncStr(v types.Value, r *page.RID) string {
	return EncodeValueAndRIDToDicOrderComparableVarchar(&v, r).ToVarchar()
}

// C18: integer keys: order preservation for all 2^32 x 2^32 pairs and all row ids, adjacency of equal keys,
// bracket used by ScanKey, round trip.
func VF_C18_Int() {
	a, b := vf.I32(), vf.I32()
	r1, r2 := vfRID(), vfRID()
	ea := vfEncStr(types.NewInteger(a), r1)
	eb := vfEncStr(types.NewInteger(b), r2)
	vf.Cover("c18.int.encoded")
	vf.Assert(len(ea) == 12 && len(eb) == 12, "int key is 4+8 bytes")
	vf.Assert(vf.Implies(a < b, vf.StrLess(ea, eb)), "a<b => E(a,r1)<E(b,r2)")
	vf.Assert(vf.Implies(vf.StrLess(ea, eb), a <= b), "E(a,r1)<E(b,r2) => a<=b")
	vf.Assert(vf.Implies(a == b, vf.StrLess(ea, eb) == vf.StrLess(ea[4:], eb[4:])), "equal keys ordered by row id bytes only")
	vf.Assert(vf.Implies(a == b, ea[:4] == eb[:4]), "a==b => Ekey(a)==Ekey(b)")
	vf.Assert(vf.Implies(vf.And(a == b, vf.And(r1.PageID == r2.PageID, r1.SlotNum == r2.SlotNum)), ea == eb), "same key and rid => same encoding")
	vf.Assert(vf.Implies(ea == eb, vf.And(a == b, vf.And(r1.PageID == r2.PageID, r1.SlotNum == r2.SlotNum))), "encoding is injective")
	// bracket
	lo := vfEncStr(types.NewInteger(a), &page.RID{PageID: 0, SlotNum: 0})
	hi := vfEncStr(types.NewInteger(a), &page.RID{PageID: math.MaxInt32, SlotNum: math.MaxUint32})
	vf.Assert(!vf.StrLess(ea, lo), "E(a,{0,0}) <= E(a,r)")
	vf.Assert(!vf.StrLess(hi, ea), "E(a,r) <= E(a,{max,max})")
	// round trip through both extractors
	enc := EncodeValueAndRIDToDicOrderComparableVarchar(GetPonterOfValue(types.NewInteger(a)), r1)
	back := ExtractOrgKeyFromDicOrderComparableEncodedVarchar(enc, types.Integer)
	vf.Assert(back.ToInteger() == a, "extract(varchar) returns the key")
	back2 := ExtractOrgKeyFromDicOrderComparableEncodedBytes(enc.Serialize(), types.Integer)
	vf.Assert(back2.ToInteger() == a, "extract(bytes) returns the key")
}

// C18: float keys, all non-NaN pairs including -0, denormals, infinities.
func VF_C18_Float() {
	a, b := vf.F32(), vf.F32()
	vf.Assume(!vf.F32IsNaN(a))
	vf.Assume(!vf.F32IsNaN(b))
	r1, r2 := vfRID(), vfRID()
	ea := vfEncStr(types.NewFloat(a), r1)
	eb := vfEncStr(types.NewFloat(b), r2)
	vf.Cover("c18.float.encoded")
	vf.Assert(vf.Implies(a < b, vf.StrLess(ea, eb)), "a<b => E(a,r1)<E(b,r2)")
	// -0.0 and +0.0 compare equal but encode differently: the converse is stated on the encodings of the key part
	vf.Assert(vf.Implies(vf.StrLess(ea[:4], eb[:4]), a <= b), "Ekey(a)<Ekey(b) => a<=b")
	// values that compare equal (-0.0 and +0.0) must share one key encoding, otherwise a lookup of 0.0 misses rows stored as -0.0
	vf.Assert(vf.Implies(vf.F32Eq(a, b), ea[:4] == eb[:4]), "a==b => Ekey(a)==Ekey(b)")
	vf.Assert(vf.Implies(vf.F32Eq(a, b), vf.And(!vf.StrLess(eb, vfEncStr(types.NewFloat(a), &page.RID{PageID: 0, SlotNum: 0})), !vf.StrLess(vfEncStr(types.NewFloat(a), &page.RID{PageID: math.MaxInt32, SlotNum: math.MaxUint32}), eb))), "an equal value's entry lies inside the bracket ScanKey uses")
	lo := vfEncStr(types.NewFloat(a), &page.RID{PageID: 0, SlotNum: 0})
	hi := vfEncStr(types.NewFloat(a), &page.RID{PageID: math.MaxInt32, SlotNum: math.MaxUint32})
	vf.Assert(!vf.StrLess(ea, lo), "E(a,{0,0}) <= E(a,r)")
	vf.Assert(!vf.StrLess(hi, ea), "E(a,r) <= E(a,{max,max})")
	enc := EncodeValueAndRIDToDicOrderComparableVarchar(GetPonterOfValue(types.NewFloat(a)), r1)
	back := ExtractOrgKeyFromDicOrderComparableEncodedVarchar(enc, types.Float)
	vf.Assert(vf.F32Eq(back.ToFloat(), a), "extract(varchar) returns the key")
	vf.Assert(vf.Or(math.Float32bits(back.ToFloat()) == math.Float32bits(a), math.Float32bits(a) == 0x80000000), "extract(varchar) is bit-exact except for -0.0")
	back2 := ExtractOrgKeyFromDicOrderComparableEncodedBytes(enc.Serialize(), types.Float)
	vf.Assert(vf.F32Eq(back2.ToFloat(), a), "extract(bytes) returns the key")
}

func vfStr(n int) string {
	b := vf.Bytes(n)
	for i := 0; i < n; i++ {
		vf.Assume(b[i] != 0)
	}
	return string(b)
}

// C18: varchar keys without NUL bytes; one run per length pair (la, lb chosen by the harness).
func vfC18Varchar(maxLen int) {
	la := vf.Choose(maxLen + 1)
	lb := vf.Choose(maxLen + 1)
	a, b := vfStr(la), vfStr(lb)
	r1, r2 := vfRID(), vfRID()
	ea := vfEncStr(types.NewVarchar(a), r1)
	eb := vfEncStr(types.NewVarchar(b), r2)
	vf.Cover("c18.varchar.encoded")
	vf.Assert(len(ea) == la+12, "varchar key is len+4+8 bytes")
	vf.Assert(vf.Implies(vf.StrLess(a, b), vf.StrLess(ea, eb)), "a<b => E(a,r1)<E(b,r2)")
	vf.Assert(vf.Implies(vf.StrLess(ea, eb), !vf.StrLess(b, a)), "E(a,r1)<E(b,r2) => a<=b")
	vf.Assert(vf.Implies(a == b, vf.StrLess(ea, eb) == vf.StrLess(ea[la+4:], eb[lb+4:])), "equal keys ordered by row id bytes only")
	lo := vfEncStr(types.NewVarchar(a), &page.RID{PageID: 0, SlotNum: 0})
	hi := vfEncStr(types.NewVarchar(a), &page.RID{PageID: math.MaxInt32, SlotNum: math.MaxUint32})
	vf.Assert(!vf.StrLess(ea, lo), "E(a,{0,0}) <= E(a,r)")
	vf.Assert(!vf.StrLess(hi, ea), "E(a,r) <= E(a,{max,max})")
	enc := EncodeValueAndRIDToDicOrderComparableVarchar(GetPonterOfValue(types.NewVarchar(a)), r1)
	back := ExtractOrgKeyFromDicOrderComparableEncodedVarchar(enc, types.Varchar)
	vf.Assert(back.ToVarchar() == a, "extract(varchar) returns the key")
}

func VF_C18_Varchar3() { vfC18Varchar(3) }
func VF_C18_Varchar8() { vfC18Varchar(8) }

// C18: row id packing. 64-bit and 8-byte forms are lossless for every row id; the 32-bit form is not claimed.
func VF_C18_RID() {
	r := &page.RID{PageID: types.PageID(vf.I32()), SlotNum: vf.U32()}
	u := UnpackUint64toRID(PackRIDtoUint64(r))
	vf.Cover("c18.rid.packed")
	vf.Assert(u.PageID == r.PageID && u.SlotNum == r.SlotNum, "unpack64(pack64(r)) == r")
	v := Unpack8BytesToRID(PackRIDto8bytes(r))
	vf.Assert(v.PageID == r.PageID && v.SlotNum == r.SlotNum, "unpack8(pack8(r)) == r")
	r2 := &page.RID{PageID: types.PageID(vf.I32()), SlotNum: vf.U32()}
	vf.Assert(vf.Implies(PackRIDtoUint64(r) == PackRIDtoUint64(r2), vf.And(r.PageID == r2.PageID, r.SlotNum == r2.SlotNum)), "pack64 injective")
	// the value stored in skip-list entries is decoded by the iterator with UnpackUint64toRID
	x := vf.U64()
	back := UnpackUint64toRID(x)
	vf.Assert(PackRIDtoUint64(&back) == x, "pack64(unpack64(x)) == x")
}

// C18: zero padding used for B-tree varchar keys round-trips (key length within the documented limit).
func VF_C18_Padding() {
	n := vf.Choose(37)
	key := vf.Bytes(n)
	padded := FillZeroValues(key, 50)
	vf.Cover("c18.padding")
	vf.Assert(len(padded) == 50, "padded to max key length")
	back := EliminateZeroValues(padded)
	vf.Assert(len(back) == n, "length restored")
	vf.Assert(vf.BytesEq(back, key), "content restored")
}
